"""Common driver for the codec-layer properties: run the real decoder/encoder over a corpus,
hand the observations to TLC (Trace_Codec, sharded over several JVMs), merge the verdicts."""
from __future__ import annotations

import json
from concurrent.futures import ThreadPoolExecutor
from pathlib import Path

from . import gen_db
from .common import MachineryError
from .tlc import run_trace_tlc


def load_db(wd: Path):
    db = gen_db.write(wd / "db.json")
    raw = gen_db.load_raw()
    return db, raw


def validate(mode: str, recs: list[dict], wd: Path, shards: int = 12, module: str = "Trace_Codec",
             cfg: str = "Trace_Codec.cfg") -> list[tuple[int, list]]:
    """returns [(record index (0-based), verdict list)] for records TLC rejected"""
    if not recs:
        raise MachineryError(f"{mode}: empty corpus")
    workers = max(1, min(shards, len(recs) // 200 or 1))
    texts = [json.dumps(r) for r in recs]
    # no input file above ~20 MB (the JSON reader of the trace module holds the whole file): more parts than workers if needed
    shards = max(workers, sum(len(t) for t in texts) // 20_000_000 + 1)
    # round-robin so that every shard has similar work
    parts = [list(range(s, len(recs), shards)) for s in range(shards)]

    def one(s: int):
        inp, outp = wd / f"{mode}-in-{s}.json", wd / f"{mode}-out-{s}.json"
        inp.write_text("[" + ",".join(texts[i] for i in parts[s]) + "]")
        _, v = run_trace_tlc(module, cfg, inp, outp, name=f"{module}-{mode}-{s}",
                             extra_env={"DB_FILE": str(wd / "db.json"), "MODE": mode}, timeout=3000, heap="1g")
        if v["n"] != len(parts[s]):
            raise MachineryError(f"{mode}: shard {s} judged {v['n']} of {len(parts[s])} records")
        return [(parts[s][b["k"] - 1], b["v"]) for b in v["bad"]]

    with ThreadPoolExecutor(max_workers=workers) as ex:
        res = list(ex.map(one, range(shards)))
    return sorted(x for r in res for x in r)
