"""Extract the canboat database (/repo/canboat.json) into the data the TLA+ modules load.

Nothing here is cached: every check regenerates db.json from the working tree.  All arithmetic is
exact (fractions.Fraction on the decimal literals of the JSON file).  Integers that may exceed
TLC's 32-bit range are written as sign + little-endian bit list ("sm" values).
"""
from __future__ import annotations

import json
import math
from fractions import Fraction
from functools import lru_cache
from pathlib import Path

from .common import REPO

NUMERIC = {"NUMBER", "MMSI", "PGN", "DURATION"}
SUPPORTED_DECODE = NUMERIC | {"LOOKUP", "BITLOOKUP", "FIELDTYPE_LOOKUP", "KEY_VALUE", "STRING_FIX",
                              "STRING_LZ", "STRING_LAU", "FLOAT", "TIME", "DATE", "RESERVED", "SPARE",
                              "INDIRECT_LOOKUP", "BINARY"}
ENCODABLE_TYPES = {"NUMBER", "PGN", "RESERVED", "FLOAT", "LOOKUP", "DATE", "TIME", "DURATION"}


def bits_of(n: int) -> list[int]:
    """little-endian bits of a non-negative integer, no leading zeros ([] for 0)."""
    assert n >= 0
    out = []
    while n:
        out.append(n & 1)
        n >>= 1
    return out


def sm(n: int) -> dict:
    return {"neg": n < 0, "mag": bits_of(abs(n))}


def frac(x) -> Fraction:
    return Fraction(str(x))


def lib_field_id(f: dict) -> str:
    if f["FieldType"] == "RESERVED":
        # the generator's documented renaming; a reserved field without a BitOffset becomes "reserved_"
        return "reserved_" + (str(f["BitOffset"]) if "BitOffset" in f else "")
    return f["Id"]


def field_kind(t: str) -> str:
    if t in NUMERIC:
        return "num"
    return {"LOOKUP": "lookup", "BITLOOKUP": "bitlookup", "RESERVED": "int", "SPARE": "int",
            "STRING_FIX": "strfix", "BINARY": "bin", "FLOAT": "float", "TIME": "time", "DATE": "date",
            "INDIRECT_LOOKUP": "indirect", "STRING_LZ": "strlz", "STRING_LAU": "strlau",
            "FIELDTYPE_LOOKUP": "ftlookup", "KEY_VALUE": "keyvalue"}.get(t, "unsupported")


@lru_cache(maxsize=1)
def load_raw() -> dict:
    return json.loads((REPO / "canboat.json").read_text())


def build() -> dict:
    raw = load_raw()
    defs = []
    for di, p in enumerate(raw["PGNs"]):
        fields = []
        static = True
        for f in p["Fields"]:
            t = f["FieldType"]
            kind = field_kind(t)
            has_off, has_len = "BitOffset" in f, "BitLength" in f
            if not (has_off and has_len):
                static = False
            rec = {
                "o": f["Order"], "id": lib_field_id(f), "dbid": f["Id"], "name": f["Name"],
                "unit": f.get("Unit", ""), "qty": f.get("PhysicalQuantity", ""), "type": t, "kind": kind,
                "pk": bool(f.get("PartOfPrimaryKey", False)),
                "off": f.get("BitOffset", -1), "len": f.get("BitLength", -1),
                "signed": bool(f.get("Signed", False)),
                # two's complement applies unless the field is in Excess-K notation (Offset key)
                "twos": bool(f.get("Signed", False)) and "Offset" not in f,
                "match": f.get("Match", -1), "lookup": f.get("LookupEnumeration", f.get("LookupBitEnumeration", "")),
                "excessK": "Offset" in f,
                "hasRange": False, "lo": sm(0), "hi": sm(0), "sentinelInRange": False,
                "resNum": 1, "resDen": 1, "zeroOk": False,
                "lenField": f.get("BitLengthField", 0),      # order of the field that carries this field's bit length
                # INDIRECT_LOOKUP: table and position of the companion field whose code is the first half of the key
                "indirect": f.get("LookupIndirectEnumeration", ""), "indOff": -1, "indLen": 0,
            }
            if rec["indirect"]:
                comp = next(x for x in p["Fields"] if x["Order"] == f["LookupIndirectEnumerationFieldOrder"])
                rec["indOff"], rec["indLen"] = comp.get("BitOffset", -1), comp.get("BitLength", 0)
            if kind == "float":
                rec["zeroOk"] = frac(f.get("RangeMin", 0)) <= 0 <= frac(f.get("RangeMax", 0))
            if kind in ("num", "time", "date") and "RangeMin" in f and has_len:
                res = frac(f["Resolution"])
                off = frac(f.get("Offset", 0))
                lo = math.ceil((frac(f["RangeMin"]) - off) / res)
                hi = math.floor((frac(f["RangeMax"]) - off) / res)
                n = f["BitLength"]
                signed = rec["signed"] and not rec["excessK"]
                sent = (1 << n) - 1 if (not signed or n <= 3) else (1 << (n - 1)) - 1
                rec.update(hasRange=True, lo=sm(lo), hi=sm(hi), sentinelInRange=(lo <= sent <= hi))
                if res.numerator < 2 ** 20 and res.denominator < 2 ** 30:
                    rec.update(resNum=res.numerator, resDen=res.denominator)
                else:
                    rec.update(resNum=0, resDen=0)     # spec does not multiply with this one
            fields.append(rec)
        decodable = all(f["kind"] != "unsupported" for f in fields)
        # the generator raises at the first unsupported type: fields before it are computed but never returned
        defs.append({
            "idx": di + 1, "pgn": p["PGN"], "id": p["Id"], "desc": p["Description"],
            "ttl": p.get("TransmissionInterval", -1),
            "fast": {"Fast": "fast", "Single": "single"}.get(p["Type"], "other"),
            "len": p.get("Length", -1), "minlen": p.get("MinLength", -1),
            "fallback": bool(p.get("Fallback", False)),
            "static": static, "decodable": decodable,
            "repeating": "RepeatingFieldSet1Size" in p,
            "encodable": static and all(f["type"] in ENCODABLE_TYPES for f in fields),
            "fields": fields,
        })
    lookups = {e["Name"]: {str(v["Value"]): v["Name"] for v in e["EnumValues"]}
               for e in raw["LookupEnumerations"]}
    bitlookups = {e["Name"]: {str(v["Bit"]): v["Name"] for v in e["EnumBitValues"]}
                  for e in raw["LookupBitEnumerations"]}
    indirect = {e["Name"]: {f'{v["Value1"]}_{v["Value2"]}': v["Name"] for v in e["EnumValues"]}
                for e in raw["LookupIndirectEnumerations"]}
    by_id = {d["id"]: d["idx"] for d in defs}
    by_pgn: dict[str, list[int]] = {}
    for d in defs:
        by_pgn.setdefault(str(d["pgn"]), []).append(d["idx"])
    assert len(by_id) == len(defs), "definition ids are not unique"
    return {"defs": defs, "lookups": lookups, "bitlookups": bitlookups, "indirect": indirect, "byId": by_id, "byPgn": by_pgn}


def write(path: Path) -> dict:
    db = build()
    path.write_text(json.dumps(db))
    return db


if __name__ == "__main__":
    import sys
    db = write(Path(sys.argv[1]))
    print(len(db["defs"]), "definitions")
