"""Binding self-test: every check must reject in-memory mutants of the library.

Mutants are monkey-patches applied inside this process only; nothing is written to /repo.
A mutant that the binding does not flag means the binding is vacuous -> exit 2.
"""
from __future__ import annotations

import importlib
import pkgutil
import sys

from .common import Check, env_seed


class DryCheck(Check):
    def finish(self) -> int:          # never writes evidence / replay
        return 1 if any((self.prop, k) not in self.known for k in self.violations) else 0


def selftest(prop: str, mod) -> int:
    muts = getattr(mod, "MUTANTS", {})
    if not muts:
        print(f"selftest {prop}: no mutants registered")
        return 2
    rc = 0
    for name, ctx in muts.items():
        chk = DryCheck(prop.upper(), "quick", env_seed(), mod.LEVEL)
        with ctx():
            mod.bind(chk, "selftest", env_seed())
        fresh = [k for k in chk.violations if (chk.prop, k) not in chk.known]
        if fresh:
            print(f"selftest {prop}: mutant '{name}' rejected ({len(fresh)} classes, e.g. {fresh[0]})")
        else:
            print(f"selftest {prop}: mutant '{name}' NOT detected", file=sys.stderr)
            rc = 2
    return rc


def selftest_all() -> int:
    from . import props
    rc = 0
    for m in sorted(pkgutil.iter_modules(props.__path__), key=lambda m: m.name):
        mod = importlib.import_module(f"harness.props.{m.name}")
        if hasattr(mod, "MUTANTS"):
            rc = max(rc, selftest(m.name.upper(), mod))
    return rc
