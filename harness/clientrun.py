"""Scenario builders for the gateway-client properties (C06 re-framing, C12, C20)."""
from __future__ import annotations

import random

from . import corpus, vloop

DISC = {"ebyte": {"kind": "fixed", "N": 13, "M1": 0, "M2": 0},
        "actisense": {"kind": "lines", "N": 0, "M1": 0, "M2": 0},
        "yd": {"kind": "lines", "N": 0, "M1": 0, "M2": 0},
        "waveshare": {"kind": "marker", "N": 20, "M1": 170, "M2": 85}}


def sample_messages(rng: random.Random, n: int):
    """n distinct single-frame messages + one fast-packet message (decoded objects)"""
    from nmea2000.decoder import NMEA2000Decoder
    dec = NMEA2000Decoder()
    out = []
    for i in range(n):
        # vessel heading, distinct SID / heading; no 0xAA/0x55 bytes in the data (serial marker-free domain)
        payload = bytes([i + 1, 0x10 + i, 0x20, 0x00, 0x00, 0x00, 0x00, 0xFC])
        out.append(dec.decode_basic_string(corpus.basic_string(127250, payload, src=10 + i, dst=255, prio=2), already_combined=True))
    fast = bytes([0x01 + (j % 0x50) for j in range(20)])
    fast = bytes([0x10, 0x18]) + fast[2:]            # proprietary fast packet, fallback definition (not encodable) ->
    # use an encodable fast definition instead: GNSS DOPs 129539 (8 bytes) is too short; take 129540? keep simple:
    return out


def history_messages(rng: random.Random):
    """a stream in which packets repeat: [(message, sequence counter to force or None, frames to keep or None)]
    identical single frames sent twice, a fast-packet message sent again under the same sequence counter with
    the same first frame but other content in the later frames, a stray repeat of its last frame, the first
    version once more; whatever a decoder makes of that is what the client has to deliver"""
    from nmea2000.decoder import NMEA2000Decoder
    from . import gen_db
    dec = NMEA2000Decoder()
    d = next(x for x in gen_db.build()["defs"] if x["id"] == "gnssPositionData")
    idx = {f["id"]: i for i, f in enumerate(d["fields"])}

    def engine(alt: int, hdop: int):
        # 43 bytes = 7 frames; sid, date, time and the first byte of the latitude fill the first frame
        payload = corpus.build_payload(d, {idx["sid"]: 7, idx["date"]: 19000, idx["time"]: 360000000,
                                           idx["latitude"]: 0x0102030405060708, idx["longitude"]: 0x0203040506070809,
                                           idx["altitude"]: alt, idx["hdop"]: hdop, idx["pdop"]: 0x0123,
                                           idx["numberOfSvs"]: 9, idx["referenceStations"]: 0})
        return dec.decode_basic_string(corpus.basic_string(129029, payload, src=40, dst=255, prio=3), already_combined=True)
    a = sample_messages(rng, 3)
    e1, e2 = engine(0x0000000011121314, 0x0111), engine(0x0000000021222324, 0x0222)
    assert e1 is not None and e2 is not None
    return [(a[0], None, None), (e1, 3, None), (a[1], None, None), (a[0], None, None), (e2, 3, None), (e2, 3, [-1]),
            (a[2], None, None), (e1, 3, None), (a[2], None, None), (e1, 5, [0, 1]), (e2, 5, None)]


def usb_packet(ident: int, data: bytes) -> bytes:
    body = bytes([0xAA, 0x55, 0x01, 0x02, 0x01]) + ident.to_bytes(4, "little") + bytes([len(data)]) + data + bytes(8 - len(data)) + b"\x00"
    return body + bytes([sum(body[2:19]) & 0xFF])


def wire_packets(kind: str, msgs, rng: random.Random, with_bad: bool = True):
    """list of (bytes, label) for the client kind: valid packets of msgs interleaved with undecodable ones;
    an item (message, q, keep) forces the encoder's sequence counter to q and keeps only the listed frames"""
    from nmea2000.encoder import NMEA2000Encoder
    enc = NMEA2000Encoder()
    pk = []
    for i, m in enumerate(msgs):
        keep = None
        if isinstance(m, tuple) and m and m[0] == "raw":
            # a single CAN frame given as such (messages the library cannot encode, e.g. an ISO address claim)
            _, pgn, src, dst, prio, data = m
            from . import fastpacket as fp
            pf = (pgn >> 8) & 0xFF
            ident_ = (prio << 26) | (((pgn & 0x3FF00) | dst if pf < 240 else pgn) << 8) | src
            if kind == "ebyte":
                pk.append((fp.ebyte_packet(pgn, src, dst, prio, bytes(data)), "valid"))
            elif kind == "waveshare":
                pk.append((usb_packet(ident_, bytes(data)), "valid"))
            elif kind == "yd":
                pk.append((b"00:00:0%d.000 R %08X %s\r\n" % (i % 10, ident_, " ".join("%02X" % b for b in data).encode()), "valid"))
            else:
                pk.append((b"A00000%d.000 %05X %05X %s\r\n" % (i % 10, (src << 12) | (dst << 4) | prio, pgn, bytes(data).hex().upper().encode()), "valid"))
            continue
        if isinstance(m, tuple):
            m, q, keep = m
            if q is not None:
                enc.sequence_counter = q
        n0 = len(pk)
        if kind == "ebyte":
            for p in enc.encode_ebyte(m):
                pk.append((p, "valid"))
            if with_bad and i % 2 == 0:
                pk.append((bytes([0x88, 0x09, 0x01, 0x02, 0x03] + [i] * 8), "unknown-pgn"))
                pk.append((bytes([0x88]) + (0x09F11200 + i).to_bytes(4, "big") + bytes([1, 0xFD, 0xFF, 0, 0, 0, 0, 0xFC]), "out-of-range"))
                pk.append((bytes([0x81]) + (0x09F80500 + i).to_bytes(4, "big") + bytes([0x20]) + bytes(7), "truncated-fast"))
                # PGN 65240 (ISO commanded address): the generated codec refuses it with a plain Exception
                pk.append((bytes([0x88]) + (0x18FED800 + i).to_bytes(4, "big") + bytes([1, 2, 3, 4, 5, 6, 7, 8]), "unsupported-raises"))
        elif kind == "waveshare":
            for p in enc.encode_usb(m):
                pk.append((p, "valid"))
            if with_bad:
                # well-formed packets (marker, length, checksum) the decoder refuses with an error: a field out of
                # range, a fast-packet frame without its length byte - right behind a packet that decodes
                pk.append((usb_packet(0x09F11200 + i, bytes([1, 0xFD, 0xFF, 0, 0, 0, 0, 0xFC])), "out-of-range"))
                pk.append((usb_packet(0x09F80500 + i, bytes([0x20])), "truncated-fast"))
                pk.append((usb_packet(0x18FED800 + i, bytes([1, 2, 3, 4, 5, 6, 7, 8])), "unsupported-raises"))
            if with_bad and i % 2 == 0:
                bad = bytearray(enc.encode_usb(m)[0])
                bad[12] ^= 0x01                      # checksum no longer matches
                pk.append((bytes(bad), "bad-checksum"))
            if with_bad and i % 2 == 1:
                # line noise that cannot be mistaken for a packet start (no marker, no half marker at its ends),
                # directly in front of the next message's packet
                pk.append((bytes([0x01, 0x02, 0x7f, 0x03, 0x10 + i]), "noise"))
        elif kind == "yd":
            for p in enc.encode_yacht_devices(m):
                pk.append((b"00:00:0%d.000 R " % (i % 10) + p, "valid"))
            if with_bad and i % 2 == 0:
                pk.append((b"garbage line\r\n", "malformed"))
                pk.append((b"\xff\xfe\x80 not utf-8 \xc3\r\n", "malformed"))
                pk.append((b"00:00:00.000 R 09F11299 ZZ\r\n", "malformed"))
                pk.append((b"00:00:00.000 R %08X 01 02 03 04 05 06 07 08\r\n" % (0x18FED800 + i), "unsupported-raises"))
                pk.append((b"\r\n", "empty"))
        else:
            pk.append((b"A00000%d.000 " % (i % 10) + enc.encode_actisense(m).encode() + b"\r\n", "valid"))
            if with_bad and i % 2 == 0:
                pk.append((b"$GPGGA,not,n2k\r\n", "malformed"))
                pk.append((b"A000001.000 \xff\xfe\x80 not utf-8 \xc3\r\n", "malformed"))
                pk.append((b"A000001.000 09FF7 1F513\r\n", "malformed"))
                pk.append((b"A000001.000 %05X 0FED8 0102030405060708\r\n" % ((i << 12) | (255 << 4) | 6), "unsupported-raises"))
                pk.append((b"\n", "empty"))
        if kind == "actisense" and i == 1 and isinstance(msgs[i], tuple):
            # a whole fast-packet message of 134 bytes on one line (product information): 290 characters
            body = bytes([0x34, 0x08, 0x64, 0x00]) + b"MODEL ID".ljust(32, b"\xff") + b"SW 1.0".ljust(32, b"\xff") \
                + b"VERSION A".ljust(32, b"\xff") + b"SERIAL 12345".ljust(32, b"\xff") + bytes([1, 2])
            pk.append((b"A000003.000 23FF6 1F014 " + body.hex().upper().encode() + b"\r\n", "valid"))
        if keep is not None and kind != "actisense":      # (Actisense carries whole messages: nothing to pick)
            valid = [x for x in pk[n0:] if x[1] == "valid"]
            rest = [x for x in pk[n0:] if x[1] != "valid"]
            pk[n0:] = [valid[j] for j in keep] + rest
    return pk


def oracle_tokens(kind: str, packets, client_kwargs: dict):
    """what a decoder with the same settings returns per packet (content oracle): token k or 0"""
    from nmea2000.decoder import NMEA2000Decoder
    kw = dict(client_kwargs)
    if kw.get("dump_to_file"):
        kw["dump_to_file"] = kw["dump_to_file"] + ".reference"
    dec = NMEA2000Decoder(**kw)
    toks, msgs = [], {}
    for k, (p, _) in enumerate(packets, start=1):
        try:
            if kind == "ebyte":
                m = dec.decode_tcp(p)
            elif kind == "waveshare":
                m = dec.decode_usb(p)
            elif kind == "yd":
                m = dec.decode_yacht_devices_string(p.decode("utf-8", errors="ignore").strip())
            else:
                m = dec.decode_actisense_string(p.decode("utf-8", errors="ignore").strip())
        except Exception:                  # noqa: BLE001
            m = None
        toks.append(k if m is not None else 0)
        if m is not None:
            msgs[k] = m
    return toks, msgs


def ident(m) -> tuple:
    iso = getattr(m, "source_iso_name", None)
    return (m.PGN, m.id, m.source, m.destination, m.priority, getattr(m, "hash", None), None if iso is None else iso.name,
            tuple((f.id, repr(f.value), repr(f.raw_value), f.unit_of_measurement) for f in m.fields))


def match_delivered(delivered, oracle_msgs: dict) -> list[int]:
    used, out = set(), []
    for m in delivered:
        tok = -1
        for k, om in oracle_msgs.items():
            if k not in used and ident(om) == ident(m):
                tok = k
                break
        if tok == -1:                       # maybe a second delivery of an already matched one
            for k, om in oracle_msgs.items():
                if ident(om) == ident(m):
                    tok = k
                    break
        used.add(tok)
        out.append(tok)
    return out


SESSIONS = [0]


def receive_session(kind: str, packets, chunks: list[bytes], recv_cb="ok", client_kwargs: dict | None = None,
                    sample_after: bool = True, sample_held: bool = False, gap: float = 5.0, register: str = "first",
                    relink_before: int | None = None):
    """connect, feed the chunks `gap` virtual seconds apart, stop; returns the Trace_Framing record.
    register: "first" - the receive callback is set before connect() (the common order); "late" - it is set after connect(),
    before anything arrives; "replace" - another callback takes over between the first chunk and the second (what reaches the
    replaced one afterwards counts as not delivered); "none-then" - no callback while the first chunk arrives (its messages are
    nobody's), one is set before the second.
    relink_before = i: the gateway ends the link before chunk i and the client's new link carries the rest"""
    client_kwargs = client_kwargs or {}
    sess = vloop.Session()
    after: list[int] = []
    held: list[int] = []
    done_count = [0]

    def scenario(s: vloop.Session):
        s.user("connect", s.client.connect)
        if register == "late":
            s.at_time(0.5, lambda: s.register_receiver("late"))
        elif register == "replace":
            s.at_time(0.5, lambda: s.register_receiver("first"))
            s.at_time(1.0 + gap * 0.5, lambda: s.register_receiver("second"))
        elif register == "none-then":
            s.at_time(1.0 + gap * 0.5, lambda: s.register_receiver("late"))
        for i, ch in enumerate(chunks):
            if relink_before is not None and i == relink_before:
                s.at_time(1.0 + gap * i - gap * 0.6, lambda: s.eof(max(s.readers)))
            s.at_time(1.0 + gap * i, lambda ch=ch: s.feed(max(s.readers), ch))
            if sample_after or sample_held:
                def sample():
                    after.append(sum(1 for e in s.events if e["e"] == "DeliverDone"))
                    if sample_held:
                        held.append(held_bytes(s.client))
                s.at_time(1.0 + gap * i + gap - 0.1, sample)

    # every third session: a second client of the same kind lives in the process and is fed the same packets in 7-byte pieces
    SESSIONS[0] += 1
    by = (kind, b"".join(p for p, lab in packets if lab == "valid")[:400]) if SESSIONS[0] % 3 == 0 else None
    events = sess.run(vloop.make_client_factory(kind, **client_kwargs), scenario, until=1.0 + gap * len(chunks) + 2.0,
                      recv_cb=recv_cb, register="first" if register == "first" else "scenario", bystander=by)
    toks, omsgs = oracle_tokens(kind, packets, client_kwargs)
    end = events[-1]
    return {"disc": DISC[kind], "chunks": [list(c) for c in chunks], "packets": [list(p) for p, _ in packets],
            "tokens": toks, "delivered": match_delivered(sess.delivered, omsgs),
            "after": after if sample_after else [], "held": held, "cap": 64, "canonical": True,
            "spin": bool(end.get("spin")), "loopexc": sum(1 for e in events if e["e"] == "LoopException")}, events


def deliveries(kind: str, packets, client_kwargs: dict | None = None, until: float = 12.0):
    """the messages one client hands to its receive callback for a stream fed in one piece (plain plumbing, no verdict)"""
    sess = vloop.Session()

    def scenario(s: vloop.Session):
        s.user("connect", s.client.connect)
        s.at_time(1.0, lambda: s.feed(1, b"".join(p for p, _ in packets)))
    sess.run(vloop.make_client_factory(kind, **(client_kwargs or {})), scenario, until=until)
    return list(sess.delivered)


def held_bytes(client) -> int:
    """bytes the client holds back between reads: size of the byte containers reachable from the client object
    (no attribute is named; the decoder/encoder/queue sub-objects are skipped by type)"""
    import gc
    seen, todo, total = set(), [client], 0
    skip = (type(client.decoder), type(client.encoder)) if hasattr(client, "decoder") else ()
    while todo:
        o = todo.pop()
        if id(o) in seen:
            continue
        seen.add(id(o))
        if isinstance(o, (bytes, bytearray)):
            total += len(o)
            continue
        if isinstance(o, skip) or isinstance(o, (str, int, float, type)) or o is None:
            continue
        if isinstance(o, dict):
            todo.extend(o.values())
        elif isinstance(o, (list, tuple, set, frozenset)):
            todo.extend(o)
        elif hasattr(o, "__dict__") and o is client:
            todo.extend(vars(o).values())
    return total


def segmentations(n: int, rng: random.Random, tier: str):
    """list of cut-point lists for a stream of n bytes"""
    segs = [[], list(range(1, n))]                       # all at once, one byte at a time
    step = 1 if tier == "thorough" else max(3, n // 70)      # quick: at most ~70 single cuts, spread over the stream
    segs += [[c] for c in range(1, n, step)]             # every single cut
    for _ in range({"quick": 12, "thorough": 80, "selftest": 3}[tier]):
        k = rng.randint(2, 8)
        segs.append(sorted(rng.sample(range(1, n), min(k, n - 1))))
    return segs


def cut(stream: bytes, cuts: list[int]) -> list[bytes]:
    pts = [0] + cuts + [len(stream)]
    return [stream[a:b] for a, b in zip(pts, pts[1:]) if b > a]
