"""Deterministic execution of the real asyncio gateway clients.

* VLoop: a SelectorEventLoop on virtual time.  When nothing is ready it jumps to the next timer, so
  tenacity's back-off, the 0.01 s cancellation pauses and the 30 s / 2 s sleeps cost nothing and
  every run is reproducible.  One loop iteration = one `step`; hooks run at the start of a step,
  which is how the harness injects an event "at loop step k".
* Gateway: what the library's open_connection / open_serial_connection are replaced with.  Readers
  are real asyncio.StreamReader objects (so EOF, IncompleteReadError, limits behave as in
  production) with logging wrappers; writers are fakes that record what was written and follow a
  drain pattern.
* Session: one client, one gateway script, an event log.  Events are recorded at the boundary the
  harness owns; client.state is sampled through the public property only.
"""
from __future__ import annotations

import asyncio
import heapq
from typing import Callable

SPIN_LIMIT = 2000


STALL_SECONDS = 20.0     # real seconds one session may take (they take milliseconds; the longest, 10^5-byte serial runs, a few seconds)
STALLS = [0]             # sessions of this process that ended in the watchdog (after three the remaining ones stall at once: 2 s each)


class Spin(BaseException):
    """a coroutine kept the loop for SPIN_LIMIT reads without yielding"""


class VLoop(asyncio.SelectorEventLoop):
    def __init__(self):
        super().__init__()
        self._vt = 0.0
        self.step = 0
        self.hooks: list[Callable[[int], None]] = []
        self.idle = False
        self.livelock = False
        self._same_t, self._last_t = 0, -1.0

    def time(self):
        return self._vt

    def _run_once(self):
        self.step += 1
        # watchdog: virtual time that never advances although the loop keeps running (e.g. a retry storm
        # without delay) would never reach the end of the session
        if self._vt == self._last_t:
            self._same_t += 1
            if self._same_t > 2000 and not self._stopping:
                self.livelock = True
                self.stop()
        else:
            self._last_t, self._same_t = self._vt, 0
        for h in list(self.hooks):
            h(self.step)
        while self._scheduled and self._scheduled[0]._cancelled:
            self._timer_cancelled_count -= 1
            handle = heapq.heappop(self._scheduled)
            handle._scheduled = False
        if not self._ready and not self._stopping:
            if self._scheduled:
                when = self._scheduled[0]._when
                if when > self._vt:
                    self._vt = when
            else:
                self.idle = True          # nothing can ever happen again
                self.stop()
        super()._run_once()


class LogReader(asyncio.StreamReader):
    """the real StreamReader; every read is logged and counted per loop step"""

    def __init__(self, sess: "Session", conn: int, limit: int = 2 ** 16):
        super().__init__(limit=limit, loop=sess.loop)
        self._sess, self._conn = sess, conn
        self._step, self._count = -1, 0

    def _enter(self, what: str):
        s = self._sess
        if s.loop.step != self._step:
            self._step, self._count = s.loop.step, 0
        self._count += 1
        if self._count > SPIN_LIMIT:
            s.ev("Spin", conn=self._conn)
            raise Spin()
        if self._count <= 3:
            s.ev("ReadStart", conn=self._conn, what=what)

    async def _wrap(self, what, coro):
        self._enter(what)
        try:
            data = await coro
        except asyncio.CancelledError:
            self._sess.ev("ReadCancelled", conn=self._conn)
            raise
        except Exception as e:             # noqa: BLE001
            self._sess.ev("ReadEnd", conn=self._conn, n=-1, err=type(e).__name__)
            raise
        if self._count <= 3:
            self._sess.ev("ReadEnd", conn=self._conn, n=len(data), err="")
        self._sess.reads.setdefault(self._conn, []).append(len(data))
        return data

    async def readexactly(self, n):
        return await self._wrap("readexactly", super().readexactly(n))

    async def readline(self):
        return await self._wrap("readline", super().readline())

    async def read(self, n=-1):
        return await self._wrap("read", super().read(n))


class _FakeSocket:
    """accepts the socket options a client may set (they are logged, nothing else happens)"""

    def __init__(self, sess, conn):
        self._sess, self._conn = sess, conn

    def setsockopt(self, level, opt, value):
        self._sess.ev("SockOpt", conn=self._conn, level=int(level), opt=int(opt), value=value if isinstance(value, int) else 0)

    def getsockopt(self, level, opt, *a):
        return 0

    def fileno(self):
        return -1

    def getpeername(self):
        return ("gw", 1)


class FakeWriter:
    def __init__(self, sess: "Session", conn: int, reader: LogReader):
        self._sess, self._conn, self._reader = sess, conn, reader
        self.closed = False
        self.nwrites = 0

    def write(self, data: bytes):
        s = self._sess
        self.nwrites += 1
        if self.closed or s.script.write_fails(self._conn, self.nwrites):
            s.ev("WriteError", conn=self._conn)
            # a link on which a write fails is dead: its reading side ends too, at the latest a second later
            # (scenarios that end it earlier or at a chosen moment do so themselves)
            if not self.closed:
                s.loop.call_later(1.0, self._late_eof)
            raise ConnectionResetError("write on a dead link")
        s.ev("Write", conn=self._conn, data=list(data))
        s.wire.setdefault(self._conn, []).append(bytes(data))

    async def drain(self):
        s = self._sess
        d = s.script.drain_delay(self._conn, self.nwrites)
        if d is not None:
            s.ev("DrainStart", conn=self._conn)
            await asyncio.sleep(d)
            s.ev("DrainEnd", conn=self._conn)
        if s.script.drain_fails(self._conn, self.nwrites):
            s.ev("WriteError", conn=self._conn)
            if not self.closed:
                s.loop.call_later(1.0, self._late_eof)
            raise ConnectionResetError("drain on a dead link")

    def close(self):
        if not self.closed:
            self.closed = True
            self._sess.ev("WriterClose", conn=self._conn)
            # the transport reports the end of the stream to the reader on the next loop iteration
            self._sess.loop.call_soon(self._eof)

    def _eof(self):
        if not self._reader.at_eof() and self._reader.exception() is None:
            self._reader.feed_eof()

    def _late_eof(self):
        if not self._reader.at_eof() and self._reader.exception() is None:
            self._sess.ev("Eof", conn=self._conn)
            self._reader.feed_eof()

    def is_closing(self):
        return self.closed

    async def wait_closed(self):
        # as asyncio's StreamWriter.wait_closed(): a link that was lost with an error hands that error out again
        exc = self._reader.exception()
        if exc is not None:
            raise exc
        return None

    def get_extra_info(self, name, default=None):
        # a TCP transport has a socket (the clients set keep-alive options on it); anything else is unknown
        if name == "socket":
            return _FakeSocket(self._sess, self._conn)
        return default


class _QuietReader(asyncio.StreamReader):
    """the bystander's link: nothing is logged, but a read loop that never yields is still a spin (of a client of this process)"""

    def __init__(self, sess: "Session", limit: int = 2 ** 16):
        super().__init__(limit=limit, loop=sess.loop)
        self._sess, self._step, self._count = sess, -1, 0

    def _enter(self):
        s = self._sess
        if s.loop.step != self._step:
            self._step, self._count = s.loop.step, 0
        self._count += 1
        if self._count > SPIN_LIMIT:
            s.ev("Spin", conn=-1)
            raise Spin()

    async def readexactly(self, n):
        self._enter()
        return await super().readexactly(n)

    async def readline(self):
        self._enter()
        return await super().readline()

    async def read(self, n=-1):
        self._enter()
        return await super().read(n)


class _QuietWriter:
    def __init__(self, reader):
        self._reader, self.closed = reader, False

    def write(self, data):
        if self.closed:
            raise ConnectionResetError("write on a closed link")

    async def drain(self):
        return None

    def close(self):
        if not self.closed:
            self.closed = True
            if not self._reader.at_eof():
                self._reader.feed_eof()

    def is_closing(self):
        return self.closed

    async def wait_closed(self):
        return None

    def get_extra_info(self, name, default=None):
        return default


class Script:
    """gateway behaviour; override what a scenario needs"""

    def open_result(self, k: int):
        """'accept' | 'refuse' | ('pending', seconds, 'accept'|'refuse')"""
        return "accept"

    def on_accept(self, sess: "Session", conn: int):
        pass

    def write_fails(self, conn: int, nth: int) -> bool:
        return False

    def drain_delay(self, conn: int, nth: int):
        return None

    def drain_fails(self, conn: int, nth: int) -> bool:
        return False


class _UserError(Exception):
    """an application's own exception type, with arguments that are not text"""


def callback_failure(n: int, text: str) -> Exception:
    """The exceptions user callbacks raise in practice: with text, without any (asyncio's own TimeoutError() and QueueFull(), a bare
    `raise ValueError`, a failed assert), with text of several lines or with formatting characters, with non-text arguments."""
    kinds = (lambda: RuntimeError(text), lambda: TimeoutError(), lambda: ValueError(), lambda: asyncio.QueueFull(),
             lambda: KeyError("missing"), lambda: AssertionError(), lambda: RuntimeError(text + "\nsecond line {0} %s %(x)s"),
             lambda: OSError(5, "input/output error"), lambda: _UserError(3, None, b"\xff"), lambda: RuntimeError("\n"),
             lambda: LookupError(""), lambda: StopAsyncIteration())
    return kinds[(n // 2) % len(kinds)]()


class Session:
    created = 0          # sessions made so far in this process (the callback form rotates with it)

    def __init__(self, script: Script | None = None):
        self.loop = VLoop()
        self.script = script or Script()
        self.events: list[dict] = []
        self.client = None
        self.readers: dict[int, LogReader] = {}
        self.writers: dict[int, FakeWriter] = {}
        self.wire: dict[int, list[bytes]] = {}
        self.reads: dict[int, list[int]] = {}      # sizes of the reads each connection's reader returned
        self.attempts = 0
        self.delivered: list = []
        self.beats = 0
        self.tasks_at_end = -1

    # -- event log ----------------------------------------------------------------------------
    def ev(self, kind: str, **kw):
        st = ""
        if self.client is not None:
            try:
                st = self.client.state.name
            except Exception:              # noqa: BLE001
                st = "?"
        e = {"e": kind, "step": self.loop.step, "t": round(self.loop.time(), 6), "st": st}
        e.update(kw)
        self.events.append(e)
        return e

    # -- what replaces asyncio.open_connection / serial_asyncio.open_serial_connection ----------
    async def _open(self, *a, **k):
        if (a and a[0] in ("gw2", "/dev/null2")) or k.get("url") == "/dev/null2" or k.get("host") == "gw2":
            return await self._open_bystander(k)
        self.attempts += 1
        n = self.attempts
        self.ev("Open", k=n)
        res = self.script.open_result(n)
        if isinstance(res, tuple):
            _, delay, res = res
            self.ev("OpenPending", k=n)
            await asyncio.sleep(delay)
        if res == "refuse":
            self.ev("OpenResult", k=n, r="refuse")
            raise ConnectionRefusedError(f"attempt {n} refused")
        # (the stream limit the client asks for is honoured, as asyncio.open_connection / open_serial_connection do)
        reader = LogReader(self, n, limit=k.get("limit", 2 ** 16))
        writer = FakeWriter(self, n, reader)
        self.readers[n], self.writers[n] = reader, writer
        self.ev("OpenResult", k=n, r="accept")
        self.script.on_accept(self, n)
        return reader, writer

    # -- a second client of the same process (another gateway on the boat): not observed, only there ------------------
    async def _open_bystander(self, k):
        """its gateway refuses two attempts out of three, feeds a few packets in odd pieces and drops the link after 2.5 s:
        the bystander is connecting, waiting between attempts, reading and reconnecting all the time"""
        self.by_attempts = getattr(self, "by_attempts", 0) + 1
        if self.by_attempts % 3 != 0:
            raise ConnectionRefusedError("bystander refused")
        reader = _QuietReader(self, limit=k.get("limit", 2 ** 16))
        writer = _QuietWriter(reader)
        data = self.bystander_data
        t0 = self.loop.time()
        for j in range(0, len(data), 7):
            self.loop.call_at(t0 + 0.11 + 0.13 * (j // 7), lambda j=j: (not writer.closed) and reader.feed_data(data[j:j + 7]))
        self.loop.call_at(t0 + 2.5, lambda: (not writer.closed) and reader.feed_eof())
        return reader, writer

    # -- environment actions --------------------------------------------------------------------
    def feed(self, conn: int, data: bytes):
        self.ev("Feed", conn=conn, n=len(data))
        self.readers[conn].feed_data(data)

    def eof(self, conn: int):
        self.ev("Eof", conn=conn)
        r = self.readers[conn]
        if not r.at_eof():
            r.feed_eof()

    def reset(self, conn: int):
        self.ev("Reset", conn=conn)
        self.readers[conn].set_exception(ConnectionResetError("reset by peer"))

    def at_step(self, k: int, fn: Callable[[], None]):
        def hook(step):
            if step == k:
                self.loop.hooks.remove(hook)
                fn()
        self.loop.hooks.append(hook)

    def at_time(self, t: float, fn: Callable[[], None]):
        self.loop.call_at(t, fn)

    def user(self, name: str, coro_fn):
        """run a public coroutine of the client as a user task, logging call and return"""
        async def wrapper():
            self.ev("Call", f=name)
            try:
                await coro_fn()
            except asyncio.CancelledError:
                self.ev("Ret", f=name, exc="Cancelled")
                raise
            except Exception as e:         # noqa: BLE001
                self.ev("Ret", f=name, exc=type(e).__name__)
                return
            self.ev("Ret", f=name, exc="")
        return self.loop.create_task(wrapper(), name=f"user-{name}")

    # -- running --------------------------------------------------------------------------------
    def run(self, make_client, scenario, until: float = 120.0, status_cb="ok", recv_cb="ok", heartbeat=True, register="first",
            cb_kind: str | None = None, bystander=None):
        """bystander = (client kind, bytes its gateway keeps sending): a second client object lives in the same process"""
        """make_client() -> client (called inside the loop); scenario(sess) schedules everything else"""
        import nmea2000.ioclient as ioc
        loop = self.loop
        asyncio.set_event_loop(loop)
        o1, o2 = ioc.asyncio.open_connection, ioc.serial_asyncio.open_serial_connection
        ioc.asyncio.open_connection = self._open
        ioc.serial_asyncio.open_serial_connection = self._open
        spin = []

        async def status(state):
            self.ev("Status", s=state.name)
            if status_cb == "slow" or (status_cb == "slowC" and state.name == "CONNECTED") \
                    or (status_cb == "slowD" and state.name == "DISCONNECTED"):
                await asyncio.sleep(0.3)
            elif status_cb == "raise":
                self.ev("StatusDone", r="raised")
                self.n_status_raised = getattr(self, "n_status_raised", 0) + 1
                raise callback_failure(self.n_status_raised, "status callback failed")
            self.ev("StatusDone", r="ok")

        self.stale = []                # messages handed to a receive callback that was no longer the registered one
        self.current_receiver = None

        def register_receiver(tag):
            """(re)register a receive callback of its own identity; None removes it - what set_receive_callback offers"""
            self.current_receiver = tag
            self.ev("Register", tag=str(tag))
            if tag is None:
                self.client.set_receive_callback(None)
                return

            async def tagged(msg, tag=tag):
                if self.current_receiver != tag:
                    self.stale.append((tag, msg))
                    self.ev("StaleDeliver", tag=str(tag))
                    return
                await receive(msg)
            self.client.set_receive_callback(self.dress(tagged))
        self.register_receiver = register_receiver

        async def receive(msg):
            n = len(self.delivered)
            self.delivered.append(msg)
            self.ev("Deliver", i=n)
            how = recv_cb(n) if callable(recv_cb) else recv_cb
            try:
                if how == "slow":
                    await asyncio.sleep(0.25)
                elif how == "raise":
                    raise callback_failure(n, "receive callback failed")
            except asyncio.CancelledError:
                self.ev("DeliverDone", i=n, r="cancelled")
                raise
            except Exception:
                self.ev("DeliverDone", i=n, r="raised")
                raise
            self.ev("DeliverDone", i=n, r="ok")

        async def beat():
            while True:
                await asyncio.sleep(1.0)
                self.beats += 1
                self.ev("Beat")

        # the callbacks are handed over in the forms applications use: a coroutine function, an object whose class defines
        # `async def __call__`, a plain function returning the coroutine (a lambda or decorator around the handler), a partial
        Session.created += 1
        kind_ = cb_kind or ("function", "object", "wrapper", "partial")[Session.created % 4]
        self.cb_kind = kind_

        def dress(fn):
            if kind_ == "object":
                class Handler:
                    async def __call__(self, x):
                        return await fn(x)
                return Handler()
            if kind_ == "wrapper":
                return lambda x: fn(x)
            if kind_ == "partial":
                import functools

                async def with_extra(_tag, x):
                    return await fn(x)
                return functools.partial(with_extra, "tag")
            return fn
        self.dress = dress

        async def boot():
            self.client = make_client()
            self.client.set_status_callback(dress(status))
            if register == "first":
                self.client.set_receive_callback(dress(receive))
            self.ev("Created")
            if bystander is not None:
                bkind, self.bystander_data = bystander

                async def nothing(_x):
                    return None
                self.client2 = make_client_factory(bkind, _bystander=True)()
                self.client2.set_status_callback(nothing)
                self.client2.set_receive_callback(nothing)
                loop.create_task(self.client2.connect(), name="bystander-connect")
                loop.call_at(max(1.0, until - 6.0), lambda: loop.create_task(self.client2.close(), name="bystander-close"))
            scenario(self)

        def handler(lp, ctx):
            exc = ctx.get("exception")
            if isinstance(exc, Spin):
                spin.append(1)
                lp.stop()
            else:
                self.ev("LoopException", what=str(ctx.get("message", ""))[:80], exc=type(exc).__name__ if exc else "")
        loop.set_exception_handler(handler)
        try:
            loop.create_task(boot(), name="harness-boot")
            hb = loop.create_task(beat(), name="harness-beat") if heartbeat else None
            loop.call_at(until, loop.stop)
            # wall-clock watchdog: client code that loops without ever awaiting (no read, no sleep) never returns to the event
            # loop, and no virtual-time device can see it.  A session is a few milliseconds of real time; after STALL_SECONDS the
            # alarm raises Spin inside whatever is running: the session ends as monopolised, the check goes on.
            import signal
            import threading
            armed = threading.current_thread() is threading.main_thread()
            if armed:
                def on_alarm(signum, frame):
                    # (raised inside a task, the exception ends that task - asyncio stores it there - and the loop goes on:
                    #  the stall is recorded here, not where the exception lands)
                    spin.append(1)
                    STALLS[0] += 1
                    self.ev("Spin", conn=0)
                    raise Spin()
                old_handler = signal.signal(signal.SIGALRM, on_alarm)
                signal.setitimer(signal.ITIMER_REAL, STALL_SECONDS if STALLS[0] < 3 else 2.0)
            try:
                loop.run_forever()
            except Spin:
                spin.append(1)
            finally:
                if armed:
                    signal.setitimer(signal.ITIMER_REAL, 0)
                    signal.signal(signal.SIGALRM, old_handler)
            if hb is not None:
                hb.cancel()
            pending = [t for t in asyncio.all_tasks(loop) if not t.done() and not t.get_name().startswith("harness-")]
            self.tasks_at_end = len(pending)
            self.ev("End", tasks=len(pending), names=sorted(_task_label(t) for t in pending)[:6], spin=bool(spin),
                    idle=loop.idle, livelock=loop.livelock)
            for t in asyncio.all_tasks(loop):
                t.cancel()
            try:
                loop.run_until_complete(asyncio.sleep(0))
            except BaseException:          # noqa: BLE001
                pass
        finally:
            ioc.asyncio.open_connection, ioc.serial_asyncio.open_serial_connection = o1, o2
            try:
                if self.client is not None and getattr(self.client, "decoder", None) is not None:
                    self.client.decoder.close()
            except Exception:              # noqa: BLE001
                pass
            asyncio.set_event_loop(None)
            loop.close()
        return self.events


def _task_label(t) -> str:
    try:
        return t.get_coro().__qualname__
    except Exception:                      # noqa: BLE001
        return t.get_name()


CLIENTS = ("ebyte", "actisense", "yd", "waveshare")


def make_client_factory(kind: str, _bystander: bool = False, **kw):
    host, port = ("gw2", "/dev/null2") if _bystander else ("gw", "/dev/null")

    def make():
        import nmea2000.ioclient as ioc
        if kind == "ebyte":
            return ioc.EByteNmea2000Gateway(host, 1, **kw)
        if kind == "actisense":
            return ioc.ActisenseNmea2000Gateway(host, 1, **kw)
        if kind == "yd":
            return ioc.YachtDevicesNmea2000Gateway(host, 1, **kw)
        return ioc.WaveShareNmea2000Gateway(port, **kw)
    return make
