"""Regenerates MANIFEST.json from the table below (single source of truth)."""
import json
from pathlib import Path

VERIF = Path(__file__).resolve().parent.parent

CHECKS = {
    "C05": dict(
        level="model_checking",
        text=("TLC checks the identifier laws of spec/N2KCanId.tla (IdLaw, TupleLaw) over every "
              "(priority, R/DP/PF block, PS) and a set of source addresses - in the thorough tier over all 2^29 "
              "identifiers - and Apalache discharges the same laws symbolically for all naturals below 2^29; "
              "the real header helpers and the identifier bytes inside real encoder packets are recorded over "
              "cross-sections of the space (all 2^18 PGN fields; all priority x source pairs at PDU1/PDU2 "
              "boundary fields; every encodable PGN through three frame formats) and each record is judged by "
              "TLC against Parse/Build. The thorough tier also executes build(parse(id)) = id on the real code "
              "for all 2^29 identifiers."),
        note=("Trusted: TLC/Apalache; the harness's reading of identifier bytes at fixed packet offsets. "
              "The tuple space (2^37) is covered by cross-sections, not exhaustively."),
        design="5/C05",
        technique="TLA+ spec N2KCanId; TLC invariants + Apalache symbolic check; record validation of real code by TLC",
    ),
}

NOT_YET = {
}


def main():
    props = [json.loads(l)["id"] for l in (VERIF / "properties.jsonl").read_text().splitlines() if l.strip()]
    checks = []
    for pid in props:
        if pid not in CHECKS:
            continue
        c = CHECKS[pid]
        checks.append({
            "property_id": pid,
            "quick_cmd": f"./check {pid} --tier quick",
            "thorough_cmd": f"./check {pid} --tier thorough",
            "evidence_file": f"/verif/evidence/{pid}.json",
            "replay_cmd_template": f"./check {pid} --replay {{path}}",
            "engine": "tlc",
            "level_claimed": {"category": c["level"], "text": c["text"], "design_ref": c["design"]},
            "level_note": c["note"],
            "technique": c["technique"],
        })
    na = [{"property_id": p, "reason": NOT_YET.get(p, "check not built yet in this round (see DESIGN.md section 10 for the order of work)")}
          for p in props if p not in CHECKS]
    man = {
        "version": 1,
        "setup_cmd": "./setup.sh",
        "hooks": {
            "guard": "NMEA2000_VERIF",
            "enable": "no source hooks are needed: every observation is taken at the public boundary "
                      "(return values, callbacks, transports supplied by the harness); checks import nmea2000 from /repo's working tree",
            "baseline_off_cmd": "cd /repo && /venv/bin/python -m pytest -ra -q -p no:cacheprovider --timeout=900 --continue-on-collection-errors",
            "source_commits": [],
            "add_only": True,
        },
        "engines": [
            {"name": "tlc", "path": "/verif/spec", "serves_properties": sorted(CHECKS),
             "kind_free_text": "TLA+ specification (spec/N2K*.tla) checked by TLC 1.8 (MC_*.cfg), bound to the code by "
                               "record/trace validation (Trace_*.tla) and replay of TLC-generated behaviours/tables"},
            {"name": "apalache", "path": "/verif/spec/Apa_CanId.tla", "serves_properties": ["C05"],
             "kind_free_text": "symbolic check of the identifier laws for all id < 2^29"},
        ],
        "checks": checks,
        "not_applicable": na,
        "notes": "See DESIGN.md. Known genuine defects are listed in KNOWN_FINDINGS.jsonl (status known/fixed).",
    }
    (VERIF / "MANIFEST.json").write_text(json.dumps(man, indent=1) + "\n")


if __name__ == "__main__":
    main()
