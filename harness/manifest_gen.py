"""Regenerates MANIFEST.json from the table below (single source of truth)."""
import json
from pathlib import Path

VERIF = Path(__file__).resolve().parent.parent

CHECKS = {
    "C01": dict(
        level="translation_validation",
        text=("Every generated decode_pgn_* function is treated as one translated program of the database definition. "
              "For each of the 418 definitions the harness builds payloads with every positioned field at each boundary "
              "class (range ends, +-1, zero, sign boundary, not-available pattern, error indicator, all ones/zeros, top bit) "
              "plus random in-range and arbitrary payloads, decodes them through the public path, and TLC judges every "
              "observation (header, per-field id/name/unit/quantity/type/primary-key flag, value and raw value as exact tick "
              "counts, lookup names, bit-lookup joins, fixed strings, binary, IEEE bits, date/time, or the error) against "
              "spec/N2KCodec.tla evaluated on the database (loaded from /repo/canboat.json at check time), including the "
              "must-return clause. MC_CodecLaws checks the oracle's bit arithmetic against TLC integers for all widths <= 8 (10 thorough)."),
        note=("Trusted: TLC; exact reading of database literals; 2^-50 relative float tolerance for 'value is this multiple "
              "of the resolution'. Fields without a fixed position are placed at the running offset (EffOff); STRING_LAU / STRING_LZ texts and "
              "variable BINARY well-formedness are specified, KEY_VALUE fields for metadata only; INDIRECT_LOOKUP values "
              "come from the database's indirect table; definitions containing a field type the generator rejects (19) are only required to fail."),
        design="5/C01",
        technique="TLA+ spec N2KCodec evaluated by TLC on recorded decodes of all generated decoders (record validation, sharded)",
    ),
    "C02": dict(
        level="translation_validation",
        text=("For each of the 263 definitions the database predicate Encodable admits, every payload of the C01 boundary/random "
              "corpus that the real decoder accepts is re-encoded through the public encoder and TLC compares the two payloads "
              "field by field (exact up to 48 bits, 2^-48 relative above), plus the payload length. An every-code sweep of all "
              "fields of <= 16 bits (all codes in the thorough tier, a stride plus all codes of fields <= 9 bits in the quick "
              "tier) counts byte-identical round trips and sends every other one to TLC. MC_EncodeLaws checks the specification's "
              "encode operators against TLC integers (decode-then-encode is the identity on every non-sentinel code, widths <= 8/9)."),
        note=("Trusted: TLC; byte-identical round trips in the sweep are accepted without TLC. Definitions that never encode are "
              "reported as DRIFT and leave the domain (gate: at most 10%). One known finding (64-bit altitude at 2^63-2)."),
        design="5/C02",
        technique="TLA+ spec N2KCodec; TLC record validation of decode->encode round trips over all encodable generated codecs",
    ),
    "C09": dict(
        level="translation_validation",
        text=("For each encodable definition a base request and single-field variations (range ends, between steps, exact half "
              "step, absent, one step beyond each representable end, far out, wrap-around candidates, negative for unsigned, "
              "NaN/inf, too-wide and negative codes, one field removed) are given to the real encoder. Requested numbers are "
              "described exactly (floor and fraction class). TLC decides per output: allowed codes per field (AllowedTicks), "
              "must-refuse cases (unrepresentable, missing, non-finite, too wide), not-available preserved, and locality against "
              "the base payload. MC_EncodeLaws checks the operators used (SMInc, Representable, AllowedTicks, inverse law)."),
        note=("Trusted: TLC; a fraction within double rounding of one half counts as a tie; wide (>50 bit) values to 2^-48. "
              "Known findings (6 keys): LOOKUP/RESERVED/DATE codes that are too wide or negative are masked silently."),
        design="5/C09",
        technique="TLA+ spec N2KCodec (AllowedTicks/Representable); TLC record validation of encoder outputs for boundary requests",
    ),
    "C06": dict(
        level="model_checking",
        text=("TLC checks the wire-format operators of spec/N2KWire.tla over data alphabets containing every delimiter and marker: "
              "EByte and USB Parse o Render = identity and fixed sizes, the USB checksum exposes all 18 x 255 single-byte corruptions, "
              "Yacht Devices lines are single CR/LF-terminated lines, and a concatenation of packets is split back into the same "
              "packets by the matching discipline of N2KFraming. The real encoders' outputs for every encodable definition x four "
              "formats are judged by TLC (packet count per the specification's segmentation, sizes, identifier = Build, frame data, "
              "checksum, line structure, Actisense tokens), the matching real decoder must give back an equal projection, and "
              "decode_usb must refuse every single-byte corruption of sampled packets. A history pass repeats this with one long-lived "
              "encoder and decoder per format, the same definition being sent again with another destination, source or priority."),
        note=("Trusted: TLC; text tokens read as hexadecimal by the harness; the encoder's own payload is the ground truth for the frame "
              "data (payload fidelity is C02). One known finding (empty payload through Actisense)."),
        design="5/C06",
        technique="TLA+ spec N2KWire/N2KFraming model-checked by TLC; record validation of real encoder outputs and decoder verdicts by TLC",
    ),
    "C07": dict(
        level="model_checking",
        text=("The specification itself (Build, fast-packet segmentation, the renderers of N2KWire) renders every chosen message - two "
              "per decodable fixed-layout definition, 338 definitions, single-frame and fast-packet incl. 144 fast messages of at most "
              "8 bytes - in nine ways (EByte, USB, Yacht Devices R/T with both hex cases, canboat plain frame-wise with two timestamp "
              "forms, Actisense assembled with two timestamps/cases, canboat plain assembled). The renderings are fed to the five public "
              "decode_* entry points of fresh decoders and TLC judges the projected results: decoded by every format, nothing before the "
              "last frame, all nine equal. MC_Wire checks the renderers' laws."),
        note="Trusted: TLC; messages are chosen among payloads the decoder accepts (content is C01's business); timestamps excluded.",
        design="5/C07",
        technique="TLA+ spec N2KWire renders inputs (spec->code), observations judged by TLC; MC_Wire laws model-checked",
    ),
    "C08": dict(
        level="translation_validation",
        text=("TLC checks N2KCodec!Select on the real database for all 163 definitions of the 25 multi-definition PGNs "
              "(Carries, FillIndependent, FirstInOrder; shadowed definitions reported). The 25 generated dispatchers are then "
              "driven with products of {own match value, siblings' values, a value matching none} per match position x "
              "several fills of the remaining bits; the definition the library returns (or whose decoder raised) is judged by "
              "TLC against Select for every payload."),
        note="Trusted: TLC; when the selected decoder raises, the definition is read from the generated function name in the traceback.",
        design="5/C08",
        technique="TLA+ operator Select model-checked on the database; dispatcher observations validated by TLC",
    ),
    "C03": dict(
        level="model_checking",
        text=("TLC checks on spec/N2KFastPacket.tla that Segment has the required shape and that the receiver returns nothing "
              "until the last frame and then exactly the payload, for every length 0..223 x every counter state, and for runs of "
              "18 consecutive messages over two stream keys (wrap-around). The real framer is compared with the TLC-emitted "
              "segmentation table for all 224 x 8 cases; every message framed by the real encoder (arbitrary lengths, and all 143 "
              "encodable fast-packet definitions through the public encoders) is judged by TLC against Segment, and the frames, fed "
              "in order to real decoders, give traces that TLC validates against Recv."),
        note="Trusted: TLC; _encode_fast_message driven directly for arbitrary lengths; payload on the public path observed by re-encoding (C02).",
        design="5/C03",
        technique="TLA+ spec N2KFastPacket; TLC exhaustive over lengths/counters; table emission + trace validation of real encoder/decoder",
    ),
    "C04": dict(
        level="model_checking",
        text=("TLC explores the receiver of N2KFastPacket behind a network that interleaves two streams and reorders, duplicates "
              "(current and older messages), loses non-first frames, and loses a first frame after a completed message; invariants "
              "NoFabrication, OnLast, NoRedelivery, InOrder hold in every reachable state (0.75 M states quick). Behaviours of a larger "
              "configuration (4 streams differing in source / destination / PGN, 10 lengths, padded and unpadded frames, up to 4 stray "
              "frames) are generated by TLC, replayed frame by frame into the real decoder, and the recorded traces are validated by "
              "TLC against Recv; the repository's capture fixtures are validated as well (drift only)."),
        note=("Trusted: TLC; the four concrete stream keys and the fallback definitions' data field as the observation of the payload. "
              "Domain as in the property: consecutive messages of a stream carry different counters; stray old frames carry a counter "
              "different from the current message's."),
        design="5/C04",
        technique="TLA+ spec N2KFastPacket + faulty network (MC_FP) model-checked by TLC; TLC-generated behaviours replayed into the decoder, traces validated by TLC",
    ),
    "C05": dict(
        level="model_checking",
        text=("TLC checks the identifier laws of spec/N2KCanId.tla (IdLaw, TupleLaw) over every "
              "(priority, R/DP/PF block, PS) and a set of source addresses - in the thorough tier over all 2^29 "
              "identifiers - and Apalache discharges the same laws symbolically for all naturals below 2^29; "
              "the real header helpers and the identifier bytes inside real encoder packets are recorded over "
              "cross-sections of the space (all 2^18 PGN fields; all priority x source pairs at PDU1/PDU2 "
              "boundary fields; every encodable PGN through three frame formats) and each record is judged by "
              "TLC against Parse/Build. The thorough tier also executes build(parse(id)) = id on the real code "
              "for all 2^29 identifiers. The public path uses one long-lived encoder and decoder per format and revisits a PGN, source "
              "and priority with another destination."),
        note=("Trusted: TLC/Apalache; the harness's reading of identifier bytes at fixed packet offsets. "
              "The tuple space (2^37) is covered by cross-sections, not exhaustively."),
        design="5/C05",
        technique="TLA+ spec N2KCanId; TLC invariants + Apalache symbolic check; record validation of real code by TLC",
    ),
}

CHECKS["C12"] = dict(
    level="model_checking",
    text=("TLC explores the read-by-read framing state machines of spec/N2KFraming.tla (fixed-size packets, lines, start marker + "
          "window with a hold-back buffer) over every byte stream up to 7 bytes (9 thorough) of an alphabet containing the markers and "
          "the line end and EVERY segmentation into reads: emitted packets are independent of the read boundaries, the bounded marker "
          "variant equals the unbounded one, held-back bytes are bounded. The four real clients are then run on a deterministic "
          "virtual-time asyncio loop against a simulated gateway with streams of valid, undecodable and unknown packets under "
          "hundreds of segmentations (whole, byte by byte, every single cut, random multi-cuts) x receive callbacks that succeed, "
          "raise or are slow; every session is judged by TLC against the framing model: exactly the decodable packets, once, in order, "
          "each delivered as soon as its last byte was read. Streams in which packets repeat (identical frames, a fast-packet "
          "message re-sent under the same sequence counter) are included. The composed specification N2KSystem (sender with "
          "identifier, segmentation and wire rendering -> byte transport -> client re-framing, packet and identifier parsing, "
          "decoder model with filters, source map and reassembly -> queue) is model-checked for a generated script (the wire is "
          "transparent: deliveries are always a prefix of, and finally equal to, what the decoder model returns for the messages "
          "handed over directly); TLC-generated behaviours choose the reads, the EByte and serial clients are run on them with "
          "three decoder configurations, and the deliveries after every read are validated by TLC (Trace_System)."),
    note=("Trusted: TLC; the virtual-time loop (relies on Python 3.12 asyncio internals _ready/_scheduled/_run_once); a second decoder "
          "instance with the same settings as content oracle; real asyncio.StreamReader, fake writer."),
    design="5/C12",
    technique="TLA+ spec N2KFraming model-checked over all segmentations; real client sessions on a virtual-time loop validated by TLC",
)

CHECKS["C20"] = dict(
    level="model_checking",
    text=("TLC checks the marker discipline of N2KFraming on every stream of up to 3 (4 thorough) segments drawn from valid, corrupted "
          "and truncated packets and noise runs over {AA, 55, x}: nothing with a bad checksum is delivered, delivery is in order and "
          "once, noise that neither contains nor completes the start marker loses nothing, at most the first packet after a "
          "disturbance is lost, and the held-back bytes stay below the window size. The real Waveshare client is then run on the "
          "virtual-time loop with real 20-byte packets: all patterns of 2 (3) segments over 10 segment kinds between valid packets, "
          "and noise runs of up to 10^5 (10^6) bytes, under several read segmentations; delivered identities and the bytes held "
          "back after every read are judged by TLC clause by clause; agreement with the model's exact output is reported as DRIFT."),
    note=("Trusted: TLC; the virtual-time loop; held-back bytes measured as the size of byte containers reachable from the client's own "
          "attributes (no attribute named); noise re-rolled when a false window would have a matching checksum (1/256 per false marker)."),
    design="5/C20",
    technique="TLA+ spec N2KFraming marker discipline model-checked (MC_Resync, MC_Framing); real serial client sessions validated by TLC",
)

CHECKS["C13"] = dict(
    level="model_checking",
    text=("TLC model-checks spec/N2KClient.tla - the client at the granularity of its suspension points (connect with lock, back-off, "
          "adoption of the new link, cancellation of the old receive task, status callbacks that may suspend per state; receive loop; "
          "consumer; close; a failing send; the gateway accepting, refusing, feeding, ending the stream; timers not yet due firing only when no "
          "task is ready) - composed with the monitor N2KClientMon that states the property over boundary events; for three callback "
          "regimes no clause ever trips, at most one receive path reads, and a quiescent unclosed client is connected and reading "
          "(NeverStuck; this found a genuine stuck-DISCONNECTED race, since repaired). The four real clients are then run on the "
          "virtual-time loop with one fault (end of stream, reset, garbage then end, failing write with the read side ending at once "
          "or later, Sorry,Limited) injected at every loop step of the session and inside suspending callbacks, for gateways refusing 0 "
          "or 3 attempts; every event log is validated by TLC against the same monitor: DISCONNECTED before the next attempt, delays "
          "positive, non-decreasing and capped, reads only on the current link, CONNECTED plus a delivered probe frame once the gateway "
          "has accepted for 30 s and every frame fed on the healthy current link is delivered, heartbeat alive, no spinning read loop. "
          "The serial client is a variant of the model (CfgWrite: a configuration write inside the connect attempt that may fail, after which the port is "
          "shut and the attempt retried; its first run found a leaked port, since repaired), checked in two more configurations and exercised by "
          "sessions whose first 1..5 configuration writes fail. "
          "The event logs (timestamps, link numbers, feeds) are in addition replayed through the model itself (Trace_ClientModel: hidden "
          "program counters, wake-up times and lock inferred by TLC); a log that is no behaviour of N2KClient is reported as DRIFT, "
          "which says the model no longer describes the code (not a verdict on the property)."),
    note=("Trusted: TLC; the virtual-time loop (Python 3.12 asyncio internals) with real StreamReader and fake writer; liveness is "
          "checked as bounded liveness at the end of each session and as NeverStuck on the model (bounded attempts)."),
    design="5/C13",
    technique="TLA+ model N2KClient + property monitor model-checked by TLC; event logs of fault-injected real clients validated by TLC against the monitor",
)
CHECKS["C14"] = dict(
    level="model_checking",
    text=("Same model and monitor as C13: close() is enabled in every state of the model (before connect, while the transport is "
          "opened, in back-off, inside suspending status callbacks, next to faults and failing sends); TLC checks the C14 clauses of "
          "the monitor (state never leaves CLOSED, no open attempt after close(), a link completed late is shut and never reported, "
          "no equal consecutive notifications, notifications match the state, link shut and no delivery once close() returned, no "
          "task left), ClosedFinal and AllShut. The four real clients run on the virtual-time loop with close() issued at every loop "
          "step and at fine-grained times of four session shapes (accept at once, refuse first, open pending 2 s, refuse then "
          "pending; for the serial client also three shapes whose configuration write fails in every attempt - one of them found a port "
          "left open after close(), since repaired), followed by connect() and send(), with status callbacks that succeed, raise, suspend always or only on "
          "CONNECTED; fault sessions with raising / suspending callbacks cover the notification clauses, and sessions in which a "
          "failing send triggers the reconnect during which close() arrives; every event log is validated by TLC against the monitor, "
          "and the accept-shape logs are replayed through the model itself (Trace_ClientModel; DRIFT when a log is no behaviour of it)."),
    note="Trusted: as C13. 'Tasks pending' is observed 40 virtual seconds after the start of the session (beyond the retry cap).",
    design="5/C14",
    technique="TLA+ model N2KClient + property monitor model-checked by TLC; event logs of real clients with close() at every loop step validated by TLC",
)

CHECKS["C19"] = dict(
    level="model_checking",
    text=("TLC model-checks send() (spec/N2KSend.tla, MC_Send): three concurrent calls of 1- and 3-packet messages and unsendable "
          "messages, every pattern of drain() suspending or not, a failing write or drain at any packet; with the send lock the wire "
          "always has block structure (Contiguous), unsendable messages write nothing and change nothing (Harmless), a failing write "
          "leads to DISCONNECTED and a spawned connect (WriteFault); without the lock TLC yields the interleaving that the code as "
          "found exhibited. The real EByte, Yacht Devices and Waveshare clients are then run on the virtual-time loop with a fake "
          "writer: concurrent send() tasks (single/multi-frame, together or staggered by loop steps) x drain patterns x a write or "
          "drain failure at each packet followed by reconnection and further sends x messages that cannot be sent (missing field, "
          "out-of-range value, unknown PGN, any message on the Actisense client); a mirror encoder defines each call's packets and "
          "TLC judges every session: no foreign packet, no interleaving, order, completeness, harmlessness, failure reported and reconnected."),
    note="Trusted: TLC; the virtual-time loop and fake writer; packets mapped to (call, index) tokens by content against a mirror encoder.",
    design="5/C19",
    technique="TLA+ model of send() model-checked by TLC (with/without lock); recorded send sessions of real clients validated by TLC",
)

_DEC = ("TLC model-checks spec/N2KDecoder.tla (MC_Decoder): a decoder built with a configuration, an unfiltered twin and a third "
        "independent instance; inputs are single frames of two PGNs and of two definitions sharing one PGN number, in-order and "
        "truncated fast-packet frames, address claims with three NAMEs, unknown PGNs, frames of a known match-dispatched PGN that "
        "match none of its definitions (for unfiltered decoders), bad inputs, and the end of the discovery window. ")
_REPLAY = ("TLC then generates behaviours of a larger configuration (3 sources, 14 inputs); each is replayed into real decoder objects "
           "(list entries as numbers or ids / manufacturer names in random letter case, a settable clock for the discovery window) and "
           "the recorded history - output, content, attached identity per step, for the filtered decoder and its twin - is validated by "
           "TLC against N2KDecoder!Step. ")
CHECKS["C10"] = dict(
    level="model_checking",
    text=(_DEC + "For every exclude / include list of up to two entries given by number and/or by id TLC checks Selection (the filtered "
          "decoder returns exactly the twin's permitted messages, unchanged, at the same positions - so dropping frames by number "
          "before reassembly is indistinguishable from selecting afterwards) and MapAgree (filtered claims still update the source "
          "map). " + _REPLAY),
    note="Trusted: TLC; content observed by re-encoding the returned message; kinds stand for PGNs 127250/130306/61184 (two definitions)/128275/60928.",
    design="5/C10",
    technique="TLA+ model of the decoder with an unfiltered twin model-checked by TLC; TLC-generated behaviours replayed into real decoders, histories validated by TLC",
)
CHECKS["C11"] = dict(
    level="model_checking",
    text=(_DEC + "For manufacturer exclude / include lists, network map on / off and the claim PGN filtered or not TLC checks LatestClaim "
          "(every returned message carries the NAME of its source's latest claim, also when the claim arrives inside a fast-packet "
          "message), NoLeak, Discovery, Isolation (a claim never changes another address) and Returned (non-vacuity). " + _REPLAY +
          "The identity object itself (unique number, manufacturer, instance, function, class, 64-bit NAME) attached to the claim "
          "and to later messages of the claiming source is judged by TLC (Trace_Codec MODE=C11) on boundary and random NAMEs as the "
          "specified function of the claim's fields, which C01's clauses tie to the payload bits."),
    note="Trusted: as C10; an unknown manufacturer code passes manufacturer lists (left unconstrained by the property).",
    design="5/C11",
    technique="TLA+ model of the decoder's source map and manufacturer / discovery filters model-checked by TLC; replayed behaviours validated by TLC",
)
CHECKS["C16"] = dict(
    level="model_checking",
    text=(_DEC + "TLC checks BadInputsHarmless, NoCrossTalk (steps of the other instance never change this one) and FreshMessageReturned "
          "(a complete message with a fresh sequence counter is returned after any history, including truncated first and "
          "continuation frames). " + _REPLAY + "Three real decoders are alive at once (the third receives traffic and garbage of its "
          "own between the steps); bad inputs are drawn from eight kinds across all five input formats; every behaviour is replayed "
          "twice on fresh objects and the two records must be identical; constructor arguments are checked for mutation; decoders "
          "whose preferences name the same quantities in other units (created before, after, alive together) must return what the "
          "same decoder returns alone in a fresh process."),
    note="Trusted: as C10. 'Rejected or ignored': a bad input may raise or return None, never a message, and never change later results.",
    design="5/C16",
    technique="TLA+ model of decoder instances with bad and truncated inputs model-checked by TLC; replayed behaviours validated by TLC, replay determinism",
)

CHECKS["C15"] = dict(
    level="model_checking",
    text=("Record validation by TLC (Trace_Codec MODE=C15) over two kinds of observations of the real library. (a) About 4 400 messages of "
          "395 definitions (boundary and random payloads, every field type, with and without source identity): the to_json() text is "
          "parsed by an independent JSON parser, header and per-field id / value / raw value of the parsed object are compared with the "
          "original's canonical rendering (bytes as hex, dates and times as ISO text, intervals as seconds), and from_json(text) must "
          "encode to the same bytes. (b) Decoders with dump_to_file and eight dump filters (empty, by number, by id, mixed, matching "
          "nothing) process a shuffled history incl. non-ASCII strings; the file read back after close() must be exactly the JSON text of "
          "every returned message that matches the filter, one per line, in order (DumpMatch is the specification's). The model-checking "
          "part is thin by nature (MC_RecordLaws: coherence of the record oracles); the evidence states the counts."),
    note="Trusted: TLC; Python's json module as independent parser; canonical texts produced by the harness, compared by TLC; non-finite floats excepted.",
    design="5/C15",
    technique="TLA+ record predicates (Trace_Codec C15Verdict, DumpMatch) evaluated by TLC on recorded JSON round trips and dump files",
)
CHECKS["C17"] = dict(
    level="model_checking",
    text=("TLC checks on toy layouts that the oracle KeyBits agrees exactly when two payloads agree on every bit of every primary-key "
          "field (MC_RecordLaws). All 141 fixed-layout definitions with primary-key fields (plus a sample of the others) are then decoded in "
          "database order by one decoder process with network mapping on; per definition a group of observations - base payload, non-key "
          "bits changed, every key field changed alone, other source / destination / priority, unit preferences, a second decoder "
          "instance, a second process with another PYTHONHASHSEED, mapping off - is judged pairwise by TLC: equal hash <=> same definition "
          "id and equal key bits computed by the specification from the payload and the database's primary-key flags; hash present iff "
          "mapping is on. Model-checking part thin by nature; the evidence states the counts."),
    note="Trusted: TLC; MD5 collision-freeness; key fields that are also match fields are not varied (they select another definition).",
    design="5/C17",
    technique="TLA+ operator KeyBits model-checked on toy layouts; pairwise record validation of real hashes by TLC",
)
CHECKS["C18"] = dict(
    level="model_checking",
    text=("The conversion table (quantity, requested unit, label, affine map, rounding grid) and the per-field frame rule are TLA+ "
          "definitions (Trace_Codec); MC_RecordLaws checks that the table is a partial function and that the frame rule accepts untouched "
          "fields and rejects changed attributes. All 166 fixed-layout definitions with a physical-quantity field x payloads (neutral, range "
          "ends, absent, random) x 19 preference maps (each recognised unit in several letter cases, unrecognised units, quantities without "
          "conversion, combinations) are decoded with and without the preferences and TLC judges every field pair: attributes and raw "
          "value untouched, unit label exactly the table's, absent stays absent, unrelated fields and the header identical. The numeric "
          "clause |value' - (a*value + b)| <= grid/2 is evaluated by the harness in exact rational arithmetic with the constants TLC "
          "exports (TLC has 32-bit integers) and required by TLC per field."),
    note="Trusted: TLC; exact rational evaluation of the exported affine maps (pi as a 15-digit enclosure, 2^-40 relative tolerance); preference texts lower-cased by the harness.",
    design="5/C18",
    technique="TLA+ conversion table and frame rule; TLC record validation of decodes with/without unit preferences",
)

NOT_YET = {
}


# the less-travelled routes added after the eighth seed round (the property holds for every way of reaching the code)
ROUTES = {
    "C01": "decoders that also write a dump file (of everything / of other PGNs only) and messages looked at again after to_json(), str() and get_field_by_id(). The values are also read through get_field_by_id / get_field_str_value_by_id / get_field_int_value_by_id for the payload classes where empty, zero and absent lie next to each other.",
    "C02": "the EByte, USB and Yacht Devices encode routes, one long-lived encoder each, definitions in database order; the payload is reassembled from the packets. One encoder serves the three packet routes in turn; the JSON route (to_json -> from_json -> encode) and every boundary class of TIME / DATE / DURATION fields go through all routes.",
    "C03": "fast-packet messages sent through real clients' send() with the link lost and re-established in between (the counter differs all the same). Messages whose payload contains the serial start marker (AA 55) arrive through the receive paths of the real clients.",
    "C04": "whole bystander messages of the streams' PGNs arrive through the already_combined and Actisense routes between the frames. Frames are handed over as bytes, as a reused bytearray and as memoryviews of one reused buffer.",
    "C05": "identifiers whose address bytes look like framing bytes (0xAA, 0x55, CR, LF) through the receive paths of the real clients. One encoder serves the three packet formats in turn.",
    "C06": "a second history pass with a decoder that also writes a dump file and gets the binary packets as mutable buffers.",
    "C07": "network-map decoders past their discovery window across all nine renderings (the time stamps in the text formats are far from the wall clock). One decoder receives all nine renderings of a message, in an order that changes from message to message.",
    "C09": "the base request of every definition through the three packet-producing encode routes. Every other request is made by exchanging the field object of a message that has been encoded and queried once; a field exchanged for one with another id is a missing field. The last three results of every long-lived encoder are read again after each later call (they belong to the caller).",
    "C10": "directed histories delivered in one input format from the first step to the last, per format. The filtered decoder of every history is the second instance built from the same argument objects (lists with duplicate entries); whole messages of the fast-packet PGN are inputs of the model and of the replay.",
    "C11": "claim / data histories through the four real clients built with the configuration's options, the link replaced at a chosen step (replay_through_client; a lost link is a stuttering step of the decoder model).",
    "C12": "clients built with options (network map, units, filters, manufacturer list, dump file; the reference decoder gets the same), the link replaced between two parts of the traffic, the receive callback registered after connect() or replaced while idle; identity of a delivery includes hash, source identity and units. Callbacks are handed over as coroutine functions, objects with async __call__, wrappers and partials (rotating per session); every third session has a second client of the same kind in the process; intact packets containing the start marker are part of the clean streams; option sets that exclude the address claim by number (the decoder still learns names from it).",
    "C13": "clients built with network mapping on (they send their own requests after every connection) under faults next to those requests. Callbacks rotate through four forms; every fourth session has an unobserved second client (another kind) that is refused, connects, reads and loses its link all the time.",
    "C14": "close() called twice (the second inside the first's notification) and a first close() abandoned by its caller. Every third close session leaves the client through its async context manager instead of calling close().",
    "C15": "messages obtained through decode_tcp / decode_usb from bytes and from mutable buffers, fast messages frame by frame. The command line (decode --frame, encode --frame) is one more route; dump sessions include address claims and are closed by close() or by leaving the with-block.",
    "C17": "the same payloads as delivered by the four real clients built with network mapping on and off. Decoders that also write a dump file (mapping off and on) are part of every group.",
    "C18": "the same preferences in decoders that also write a dump file (of everything / of other PGNs only). Fast-packet and single-frame messages also arrive frame by frame (EByte packets) at the preference decoders.",
    "C19": "unsendable messages handed to a client that was never connected. Clients built with network mapping on: their own three requests fall due while a multi-frame message is stalled (they are calls like any other). Near-repetitions one after the other (raw value of a lookup only; a one-frame fast-packet message twice).",
    "C20": "periods in which no receive callback is registered (what the client holds back stays bounded; packets complete meanwhile are nobody's). Every third session has a second serial client in the process reading its own packets in 7-byte pieces.",
}


def main():
    props = [json.loads(l)["id"] for l in (VERIF / "properties.jsonl").read_text().splitlines() if l.strip()]
    checks = []
    for pid in props:
        if pid not in CHECKS:
            continue
        c = dict(CHECKS[pid])
        if pid in ROUTES:
            c["text"] = c["text"] + " Other routes to the same mechanism (same verdicts): " + ROUTES[pid]
        checks.append({
            "property_id": pid,
            "quick_cmd": f"./check {pid} --tier quick",
            "thorough_cmd": f"./check {pid} --tier thorough",
            "evidence_file": f"/verif/evidence/{pid}.json",
            "replay_cmd_template": f"./check {pid} --replay {{path}}",
            "engine": "tlc",
            "level_claimed": {"category": c["level"], "text": c["text"], "design_ref": c["design"]},
            "level_note": c["note"],
            "technique": c["technique"],
        })
    na = [{"property_id": p, "reason": NOT_YET.get(p, "check not built yet in this round (see DESIGN.md section 10 for the order of work)")}
          for p in props if p not in CHECKS]
    man = {
        "version": 1,
        "setup_cmd": "./setup.sh",
        "hooks": {
            "guard": "NMEA2000_VERIF",
            "enable": "no source hooks are needed: every observation is taken at the public boundary "
                      "(return values, callbacks, transports supplied by the harness); checks import nmea2000 from /repo's working tree",
            "baseline_off_cmd": "cd /repo && /venv/bin/python -m pytest -ra -q -p no:cacheprovider --timeout=900 --continue-on-collection-errors",
            "source_commits": [],
            "add_only": True,
        },
        "engines": [
            {"name": "tlc", "path": "/verif/spec", "serves_properties": sorted(CHECKS),
             "kind_free_text": "TLA+ specification (spec/N2K*.tla) checked by TLC 1.8 (MC_*.cfg), bound to the code by "
                               "record/trace validation (Trace_*.tla) and replay of TLC-generated behaviours/tables"},
            {"name": "apalache", "path": "/verif/spec/Apa_CanId.tla", "serves_properties": ["C05"],
             "kind_free_text": "symbolic check of the identifier laws for all id < 2^29"},
        ],
        "checks": checks,
        "not_applicable": na,
        "notes": "See DESIGN.md. Known genuine defects are listed in KNOWN_FINDINGS.jsonl (status known/fixed).",
    }
    (VERIF / "MANIFEST.json").write_text(json.dumps(man, indent=1) + "\n")


if __name__ == "__main__":
    main()
