"""Concrete side of the fast-packet checks: abstract streams/bytes -> CAN frames, the real decoder's
output -> payload bytes."""
from __future__ import annotations

# abstract stream id -> (PGN, source, destination): same PGN from two sources, same source to two
# destinations, and a second PGN; all four are proprietary fast-packet PGNs with a fallback definition
STREAMS = {1: (126720, 11, 22), 2: (126720, 12, 22), 3: (126720, 11, 23), 4: (130816, 11, 255)}
PRIO = 6


def byte_of(s: int, m: int, j: int) -> int:
    """concrete value of payload byte identity <<s, m, j>> (never 0: trailing bytes stay visible).
    Byte 2 keeps industry code 0 so that no manufacturer definition matches (fallback is selected)."""
    if j == 2:
        return 0x18
    return 1 + ((j * 37 + m * 101 + s * 53) % 255)


def payload_of(s: int, m: int, length: int) -> bytes:
    return bytes(byte_of(s, m, j) for j in range(1, length + 1))


def chunk_bytes(chunk) -> list[int]:
    out = []
    for b in chunk:
        if b[0] == "pad":
            out.append({"ff": 0xFF, "00": 0x00}[b[1]])
        else:
            out.append(byte_of(*b))
    return out


def can_data(seq: int, fc: int, length: int, chunk: list[int]) -> bytes:
    head = [(seq << 5) | fc] + ([length] if fc == 0 else [])
    return bytes(head + chunk)


def ebyte_packet(pgn: int, src: int, dst: int, prio: int, data: bytes) -> bytes:
    pf = (pgn >> 8) & 0xFF
    field = (pgn & 0x3FF00) | dst if pf < 240 else pgn
    ident = (prio << 26) | (field << 8) | src
    return bytes([0x80 | len(data)]) + ident.to_bytes(4, "big") + data


def observed_payload(msg) -> list[int] | None:
    """payload bytes carried by a message decoded under a proprietary fallback definition"""
    by = {f.id: f for f in msg.fields}
    try:
        v = by["manufacturerCode"].raw_value | (by["reserved_11"].raw_value << 11) | (by["industryCode"].raw_value << 13)
        v |= int.from_bytes(by["data"].raw_value, "big") << 16
    except (KeyError, TypeError):
        return None
    return list(v.to_bytes((v.bit_length() + 7) // 8, "little"))


RECV_BUFFER = bytearray(13)      # a receive buffer an application reuses for every packet (sock.recv_into)


def feed(dec, s: int, seq: int, fc: int, length: int, chunk: list[int], via: str = "bytes") -> dict:
    """one frame into the real decoder (EByte path); returns the event with the observation.
    via = "view": the packet is handed over as a memoryview of one reused buffer - whatever the decoder keeps of a frame
    must be its own copy"""
    pgn, src, dst = STREAMS[s]
    ev = {"s": s, "seq": seq, "fc": fc, "len": length, "chunk": chunk, "obs": "none", "payload": []}
    try:
        pkt = ebyte_packet(pgn, src, dst, PRIO, can_data(seq, fc, length, chunk))
        if via == "view":
            RECV_BUFFER[:] = pkt
            pkt = memoryview(RECV_BUFFER)
        elif via == "buffer":
            RECV_BUFFER[:] = pkt
            pkt = RECV_BUFFER
        msg = dec.decode_tcp(pkt)
    except Exception as e:                 # noqa: BLE001
        ev["obs"], ev["err"] = "err", f"{type(e).__name__}: {e}"[:120]
        return ev
    if msg is not None:
        p = observed_payload(msg)
        if p is None or (msg.PGN, msg.source, msg.destination) != (pgn, src, dst):
            ev["obs"], ev["err"] = "err", f"returned {msg.id} for {msg.PGN}/{msg.source}/{msg.destination}"
        else:
            ev["obs"], ev["payload"] = "msg", p
    return ev
