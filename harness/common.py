"""Shared plumbing for every check: paths, seeds, findings, evidence, exit codes.

Python never decides a property here.  This module only
  * moves data in and out of TLC,
  * aggregates TLC's verdicts into VIOLATION / KNOWN-FINDING / DRIFT lines,
  * writes the evidence file (schema: /root/.vp/EVIDENCE.schema.json).

Exit codes: 0 property held on everything explored (KNOWN-FINDING lines allowed),
            1 at least one VIOLATION line was printed,
            2 the machinery itself failed (TLC crash, vacuity gate, parse error).
"""
from __future__ import annotations

import json
import os
import shutil
import sys
import time
from pathlib import Path

VERIF = Path(__file__).resolve().parent.parent
REPO = Path(os.environ.get("VERIF_REPO", "/repo"))
SPEC = VERIF / "spec"
# VERIF_SCRATCH (seed evaluation only): work files, evidence and replay files of this run go elsewhere, so that
# several evaluations can run side by side without touching /verif/evidence
_SCRATCH = os.environ.get("VERIF_SCRATCH")
WORK = Path(_SCRATCH) / "work" if _SCRATCH else VERIF / ".work"
EVIDENCE = Path(_SCRATCH) / "evidence" if _SCRATCH else VERIF / "evidence"
REPLAY = Path(_SCRATCH) / "replay" if _SCRATCH else VERIF / "replay"
FINDINGS_FILE = VERIF / "KNOWN_FINDINGS.jsonl"
GUARD = "NMEA2000_VERIF"

LEVELS = {"exploration", "fault_enumeration", "model_checking", "proof",
          "translation_validation", "other"}


class MachineryError(Exception):
    """Raised when the checker cannot judge (exit 2)."""


def workdir(name: str) -> Path:
    d = WORK / name
    if d.exists():
        shutil.rmtree(d)
    d.mkdir(parents=True)
    return d


def load_findings() -> dict:
    """key -> record, for status == 'known' only ('fixed' suppresses nothing)."""
    known = {}
    if FINDINGS_FILE.exists():
        for line in FINDINGS_FILE.read_text().splitlines():
            line = line.strip()
            if not line or line.startswith("#"):
                continue
            rec = json.loads(line)
            if rec.get("status") == "known":
                known[(rec["property"], rec["key"])] = rec
    return known


CURRENT = None      # the Check of this process (the CLI falls back on it when the harness crashes after a violation)


class Check:
    """Accumulates what one run of one property covered and found."""

    def __init__(self, prop: str, tier: str, seed: int, level: str):
        assert level in LEVELS
        self.prop, self.tier, self.seed, self.level = prop, tier, seed, level
        self.t0 = time.time()
        self.coverage: dict = {}
        self.assumptions: list[str] = []
        self.violations: dict[str, dict] = {}     # key -> detail (first instance)
        self.vcount: dict[str, int] = {}
        self.drift: list[str] = []
        self.notes: list[str] = []
        self.known = load_findings()
        self.gates: list[str] = []
        global CURRENT
        CURRENT = self

    # -- collecting -------------------------------------------------------
    def violation(self, key: str, what: str, detail: dict | None = None):
        """A breach of the *property* (decided by TLC); key = canonical input class."""
        self.vcount[key] = self.vcount.get(key, 0) + 1
        if key not in self.violations:
            self.violations[key] = {"what": what, "detail": detail or {}}

    def add(self, **kw):
        for k, v in kw.items():
            if isinstance(v, int) and isinstance(self.coverage.get(k), int):
                self.coverage[k] += v
            else:
                self.coverage[k] = v

    def sample(self, s, cap: int = 6):
        lst = self.coverage.setdefault("samples", [])
        if len(lst) < cap:
            lst.append(s)

    def gate(self, cond: bool, msg: str):
        """Vacuity / machinery gate: failing it means the check cannot vouch for 'held'.  It is evaluated at the end:
        a violation TLC has established on real observations stands (exit 1) even if a gate failed as well - the code
        under test may be so broken that the corpus shrinks - whereas 'held' is never reported past a failed gate."""
        if not cond:
            self.gates.append(msg)

    # -- finishing --------------------------------------------------------
    def finish(self) -> int:
        unknown = []
        known_hit = []
        for key, v in sorted(self.violations.items()):
            if (self.prop, key) in self.known:
                known_hit.append((key, v))
            else:
                unknown.append((key, v))
        for key, v in known_hit:
            print(f"KNOWN-FINDING: property={self.prop} {key}: {v['what']} "
                  f"(x{self.vcount[key]})")
        for d in self.drift[:40]:
            print(f"DRIFT: {d}")
        rc = 0
        if unknown:
            rdir = REPLAY / self.prop
            rdir.mkdir(parents=True, exist_ok=True)
            for n_, (key, v) in enumerate(unknown[:50]):
                safe = "".join(c if c.isalnum() or c in "-_." else "_" for c in key)[:150]
                path = rdir / f"{safe}.json"
                path.write_text(json.dumps(
                    {"property": self.prop, "key": key, "what": v["what"],
                     "count": self.vcount[key], "seed": self.seed, "tier": self.tier,
                     "detail": v["detail"]}, indent=1, default=str))
                if n_ < 12:
                    print(f"VIOLATION property={self.prop} replay={path}")
                    print(f"  {key}: {v['what'][:300]} (x{self.vcount[key]})")
            if len(unknown) > 12:
                print(f"  ... {len(unknown)} violation classes in total; replay files for the first 50 under {rdir}")
            rc = 1
        if self.gates and not unknown:
            raise MachineryError("; ".join(self.gates[:4]))
        for g in self.gates:
            self.notes.append(f"gate failed (violations are reported all the same): {g}")
        self._write_evidence(len(unknown), [k for k, _ in known_hit])
        print(f"{self.prop} {self.tier}: "
              f"{'VIOLATED' if rc else 'held'}; known-findings={len(known_hit)} "
              f"drift={len(self.drift)} wall={time.time() - self.t0:.1f}s")
        return rc

    def _write_evidence(self, nviol: int, known_keys: list[str]):
        cov = dict(self.coverage)
        cov.setdefault("samples", [])
        if known_keys:
            cov["known_findings_reproduced"] = known_keys
        if self.drift:
            cov["drift"] = self.drift[:40]
        if self.notes:
            cov["notes"] = self.notes
        ev = {
            "property_id": self.prop, "tier": self.tier, "seed": self.seed,
            "level": self.level, "coverage": cov,
            "assumptions": self.assumptions,
            "wall_s": round(time.time() - self.t0, 2),
            "violations": nviol,
        }
        validate_evidence(ev)
        EVIDENCE.mkdir(exist_ok=True)
        (EVIDENCE / f"{self.prop}.json").write_text(json.dumps(ev, indent=1, default=str))


def validate_evidence(ev: dict):
    """Structural check mirroring EVIDENCE.schema.json (no jsonschema in /venv)."""
    for k in ("property_id", "tier", "seed", "level", "coverage", "wall_s"):
        if k not in ev:
            raise MachineryError(f"evidence lacks {k}")
    cov, lvl = ev["coverage"], ev["level"]
    if not isinstance(cov.get("samples"), list) or not cov["samples"]:
        raise MachineryError("evidence: samples must be a non-empty list")
    own = {"model_checking": ("states", "transitions", "traces_validated_against_impl"),
           "translation_validation": ("programs", "disagreements_checked"),
           "proof": ("obligations", "discharged", "checker_cmd", "trusted_base"),
           "other": ("explanation",)}.get(lvl)
    if own and all(k in cov for k in own):
        if lvl == "model_checking" and (cov["states"] < 1 or cov["transitions"] < 1):
            raise MachineryError("evidence: states/transitions must be >= 1")
        if lvl == "translation_validation" and cov["programs"] < 1:
            raise MachineryError("evidence: programs must be >= 1")
        return
    if cov.get("evaluations", 0) < 1 or cov.get("distinct_nontrivial", 0) < 2:
        raise MachineryError(f"evidence for level {lvl} lacks its keys and the fallback counts")


def env_seed() -> int:
    try:
        return int(os.environ.get("VERIF_SEED", "0"))
    except ValueError:
        return 0


def main_wrapper(fn, prop: str, tier: str) -> int:
    try:
        return fn(tier, env_seed())
    except MachineryError as e:
        print(f"MACHINERY-FAILURE property={prop}: {e}", file=sys.stderr)
        return 2
