"""Run TLC / SANY / Apalache and read back what they said."""
from __future__ import annotations

import json
import os
import re
import shutil
import subprocess
import time
from dataclasses import dataclass, field
from pathlib import Path

from .common import SPEC, WORK, MachineryError

JAVA_CP = "/opt/veriftools/tla/tla2tools.jar:/opt/veriftools/tla/CommunityModules-deps.jar"

_RE_STATES = re.compile(r"(\d+) states generated, (\d+) distinct states found, (\d+) states left")
_RE_DEPTH = re.compile(r"depth of the complete state graph search is (\d+)")
_RE_COV = re.compile(r"^<(\w+) line (\d+), col \d+ to line \d+, col \d+ of module (\w+)>: (\d+):(\d+)", re.M)
_RE_INV = re.compile(r"Invariant (\w+) is violated")
_RE_PROP = re.compile(r"(?:Action property|Temporal property|property) (\w+) (?:is|was) violated", re.I)


@dataclass
class TLCResult:
    rc: int
    out: str
    generated: int = 0
    distinct: int = 0
    depth: int = 0
    wall: float = 0.0
    violated: list[str] = field(default_factory=list)
    coverage: dict = field(default_factory=dict)   # action -> (distinct, generated)

    @property
    def ok(self) -> bool:
        return self.rc == 0 and not self.violated

    def error_text(self, n: int = 40) -> str:
        lines = self.out.splitlines()
        for i, l in enumerate(lines):
            if l.startswith("Error:") or "Exception" in l:
                return "\n".join(lines[i:i + n])
        return "\n".join(lines[-n:])


def run_tlc(module: str, cfg: str | None = None, *, env: dict | None = None,
            workers: int | str = 16, name: str | None = None, extra: list[str] | None = None,
            timeout: int = 1800, coverage: bool = False, cwd: Path = SPEC,
            deadlock: bool = True, dfs: bool = False, heap: str = "2g") -> TLCResult:
    """Run TLC on spec/<module>.tla with spec/<cfg>.  Never raises on a violated
    property; raises MachineryError only when TLC itself could not run."""
    name = name or module
    meta = WORK / "tlc" / f"{name}-{os.getpid()}-{int(time.time()*1000) % 10**9}"
    meta.mkdir(parents=True, exist_ok=True)
    # Xms = Xmx and few GC threads: measured 7 s instead of 27 s on a 16-worker run
    cmd = ["java", "-Xss64m", "-XX:+UseParallelGC", f"-XX:ParallelGCThreads={2 if str(workers) == "1" else 4}", f"-Xms{heap}", f"-Xmx{heap}"]
    if dfs:
        cmd.append("-Dtlc2.tool.queue.IStateQueue=StateDeque")
    cmd += ["-cp", JAVA_CP, "tlc2.TLC", "-workers", str(workers), "-metadir", str(meta),
            "-noGenerateSpecTE"]
    if cfg:
        cmd += ["-config", cfg]
    if coverage:
        cmd += ["-coverage", "1"]
    if not deadlock:
        cmd += ["-deadlock"]
    cmd += (extra or [])
    cmd.append(module)
    e = dict(os.environ)
    e.update({k: str(v) for k, v in (env or {}).items()})
    t0 = time.time()
    try:
        p = subprocess.run(cmd, cwd=cwd, env=e, capture_output=True, text=True, timeout=timeout)
    except subprocess.TimeoutExpired as ex:
        shutil.rmtree(meta, ignore_errors=True)
        raise MachineryError(f"TLC timed out after {timeout}s on {module}/{cfg}") from ex
    out = p.stdout + p.stderr
    shutil.rmtree(meta, ignore_errors=True)
    r = TLCResult(rc=p.returncode, out=out, wall=time.time() - t0)
    ms = _RE_STATES.findall(out)
    if ms:
        r.generated, r.distinct = int(ms[-1][0]), int(ms[-1][1])
    md = _RE_DEPTH.search(out)
    if md:
        r.depth = int(md.group(1))
    r.violated = _RE_INV.findall(out) + _RE_PROP.findall(out)
    if "Deadlock reached" in out:
        r.violated.append("Deadlock")
    if coverage:
        for act, _line, mod, dist, gen in _RE_COV.findall(out):
            k = f"{mod}.{act}"
            d0, g0 = r.coverage.get(k, (0, 0))
            r.coverage[k] = (d0 + int(dist), g0 + int(gen))
    # TLC exit codes: 0 ok, 10-13 violations (assumption/deadlock/safety/liveness); others = failure
    if p.returncode not in (0, 10, 11, 12, 13) or (p.returncode != 0 and not r.violated):
        raise MachineryError(f"TLC failed on {module}/{cfg} (rc={p.returncode}):\n{r.error_text()}")
    return r


def simulate(module: str, cfg: str, *, num: int, depth: int, seed: int, env: dict | None = None,
             name: str | None = None, timeout: int = 900, only: set | None = None,
             last: set | None = None) -> list[list[tuple[str, dict]]]:
    """tlc -simulate: returns behaviours as lists of (action label, state dict).
    only: variables to parse in every state; last: variables parsed additionally in the final state."""
    name = name or module
    d = WORK / "sim" / f"{name}-{os.getpid()}"
    if d.exists():
        shutil.rmtree(d)
    d.mkdir(parents=True)
    # num is per worker; fixed seed + aril 0 => the set of behaviours is reproducible
    nw = 8
    run_tlc(module, cfg, env=env, workers=nw, name=name + "-sim", timeout=timeout, heap="2g",
            extra=["-simulate", f"file={d}/tr,num={max(1, num // nw)}", "-depth", str(depth), "-seed", str(seed),
                   "-aril", "0"])
    out = []
    hdr = re.compile(r"^\\\* <(\w+)(?:\(([^)]*)\))? line .*?>\s*$\n^STATE_\d+ ==\s*$", re.M)
    for f in sorted(d.glob("tr_*"), key=lambda p: [int(x) for x in p.name.split("_")[1:]]):
        text = f.read_text()
        ms = list(hdr.finditer(text))
        beh = []
        for i, m in enumerate(ms):
            if i + 1 < len(ms):
                end = ms[i + 1].start()
            else:
                tail = re.search(r"^={4,}\s*$", text[m.end():], re.M)
                end = m.end() + tail.start() if tail else len(text)
            body = text[m.end():end]
            want = only if (only is None or i + 1 < len(ms)) else only | (last or set())
            beh.append((m.group(1), parse_state(body, want)))
        out.append(beh)
    shutil.rmtree(d, ignore_errors=True)
    return out


def run_trace_tlc(module: str, cfg: str, in_file: Path, out_file: Path, *, name: str | None = None,
                  extra_env: dict | None = None, timeout: int = 1800, heap: str = "2g",
                  dfs: bool = False) -> tuple[TLCResult, object]:
    """Trace/record validation: TLC reads IOEnv.IN_FILE, writes verdicts to IOEnv.OUT_FILE."""
    env = {"IN_FILE": str(in_file), "OUT_FILE": str(out_file)}
    env.update(extra_env or {})
    if out_file.exists():
        out_file.unlink()
    r = run_tlc(module, cfg, env=env, workers=1, name=name or module, timeout=timeout,
                deadlock=False, heap=heap, dfs=dfs)
    if r.violated:
        raise MachineryError(f"trace spec {module} reported {r.violated}; trace specs must be total:\n"
                             f"{r.error_text()}")
    if not out_file.exists():
        raise MachineryError(f"trace spec {module} wrote no verdict file:\n{r.error_text()}")
    return r, json.loads(out_file.read_text())


def sany(path: Path) -> None:
    p = subprocess.run(["java", "-cp", JAVA_CP, "tla2sany.SANY", path.name], cwd=path.parent,
                       capture_output=True, text=True)
    if p.returncode != 0 or "*** Errors" in p.stdout or "Fatal" in p.stdout:
        raise MachineryError(f"SANY rejects {path}:\n{p.stdout[-2000:]}")


def run_apalache(module: str, *, inv: str, init: str = "Init", next_: str = "Next", length: int = 0,
                 timeout: int = 300, name: str = "apa") -> tuple[bool, str]:
    out_dir = WORK / "apalache" / f"{name}-{os.getpid()}"
    out_dir.mkdir(parents=True, exist_ok=True)
    cmd = ["apalache-mc", "check", f"--init={init}", f"--next={next_}", f"--inv={inv}",
           f"--length={length}", f"--out-dir={out_dir}", module + ".tla"]
    try:
        p = subprocess.run(cmd, cwd=SPEC, capture_output=True, text=True, timeout=timeout)
    except subprocess.TimeoutExpired as ex:
        shutil.rmtree(out_dir, ignore_errors=True)
        raise MachineryError(f"apalache timed out on {module}:{inv}") from ex
    shutil.rmtree(out_dir, ignore_errors=True)
    out = p.stdout + p.stderr
    if "The outcome is: NoError" in out:
        return True, out
    if "The outcome is: Error" in out or "violat" in out.lower():
        return False, out
    raise MachineryError(f"apalache failed on {module}:{inv}:\n{out[-1500:]}")


# ---------------------------------------------------------------------------
# TLA+ value text -> Python (for -dump / -simulate output and PrintT lines)
# ---------------------------------------------------------------------------

class _P:
    def __init__(self, s: str):
        self.s, self.i = s, 0

    def ws(self):
        while self.i < len(self.s) and self.s[self.i] in " \t\r\n":
            self.i += 1

    def peek(self, k=1):
        return self.s[self.i:self.i + k]

    def eat(self, tok):
        self.ws()
        if not self.s.startswith(tok, self.i):
            raise ValueError(f"expected {tok!r} at {self.i}: {self.s[self.i:self.i+40]!r}")
        self.i += len(tok)

    def value(self):
        self.ws()
        s = self.s
        if s.startswith("<<", self.i):
            self.i += 2
            items = self.seq(">>")
            return tuple(items)
        if s.startswith("{", self.i):
            self.i += 1
            items = self.seq("}")
            return frozenset(_hashable(x) for x in items)
        if s.startswith("[", self.i):
            self.i += 1
            return self.record_or_fn()
        if s.startswith("(", self.i):     # function as (a :> b @@ c :> d)
            self.i += 1
            d = {}
            while True:
                k = self.value()
                self.eat(":>")
                v = self.value()
                d[_hashable(k)] = v
                self.ws()
                if s.startswith("@@", self.i):
                    self.i += 2
                    continue
                self.eat(")")
                return d
        if s[self.i] == '"':
            j = self.i + 1
            out = []
            while s[j] != '"':
                if s[j] == "\\":
                    j += 1
                out.append(s[j])
                j += 1
            self.i = j + 1
            return "".join(out)
        m = re.compile(r"-?\d+").match(s, self.i)
        if m:
            self.i = m.end()
            v = int(m.group())
            self.ws()
            if s.startswith("..", self.i):          # interval a..b printed for sets
                self.i += 2
                hi = self.value()
                return frozenset(range(v, hi + 1))
            return v
        m = re.compile(r"[A-Za-z_][A-Za-z0-9_]*").match(s, self.i)
        if m:
            self.i = m.end()
            w = m.group()
            return {"TRUE": True, "FALSE": False}.get(w, w)
        raise ValueError(f"cannot parse TLA+ value at {self.i}: {s[self.i:self.i+40]!r}")

    def seq(self, close):
        items = []
        self.ws()
        if self.s.startswith(close, self.i):
            self.i += len(close)
            return items
        while True:
            items.append(self.value())
            self.ws()
            if self.s.startswith(",", self.i):
                self.i += 1
                continue
            self.eat(close)
            return items

    def record_or_fn(self):
        d = {}
        self.ws()
        if self.s.startswith("]", self.i):
            self.i += 1
            return d
        while True:
            self.ws()
            m = re.compile(r"([A-Za-z_][A-Za-z0-9_]*)\s*\|->").match(self.s, self.i)
            if not m:
                raise ValueError(f"record field expected at {self.i}: {self.s[self.i:self.i+40]!r}")
            self.i = m.end()
            d[m.group(1)] = self.value()
            self.ws()
            if self.s.startswith(",", self.i):
                self.i += 1
                continue
            self.eat("]")
            return d


def _hashable(x):
    if isinstance(x, dict):
        return tuple(sorted((k, _hashable(v)) for k, v in x.items()))
    if isinstance(x, (list, tuple)):
        return tuple(_hashable(v) for v in x)
    return x


def parse_value(text: str):
    p = _P(text)
    v = p.value()
    p.ws()
    if p.i != len(p.s):
        raise ValueError(f"trailing text after TLA+ value: {p.s[p.i:p.i+40]!r}")
    return v


def parse_state(text: str, want: set | None = None) -> dict:
    """'/\\ x = 1\\n/\\ y = <<>>' -> {'x': 1, 'y': ()}   (want: parse only these variables)"""
    st = {}
    parts = re.split(r"(?:^|\n)\s*/\\ ", "\n" + text.strip())
    for part in parts:
        part = part.strip()
        if not part:
            continue
        m = re.match(r"([A-Za-z_][A-Za-z0-9_]*)\s*=\s*(.*)$", part, re.S)
        if not m:
            raise ValueError(f"cannot parse state conjunct {part[:60]!r}")
        if want is None or m.group(1) in want:
            st[m.group(1)] = parse_value(m.group(2))
    return st
