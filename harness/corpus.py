"""Payload generation per database definition (inputs only; no expectations).

A payload is described by one code (non-negative integer) per field; positioned fields are placed
at their BitOffset, the others follow the previous field (running offset) with a well-formed
variable-length encoding.
"""
from __future__ import annotations

import random
import struct

from .gen_db import frac


def sm_int(s: dict) -> int:
    v = sum(b << i for i, b in enumerate(s["mag"]))
    return -v if s["neg"] else v


def ticks_to_code(f: dict, t: int) -> int | None:
    n = f["len"]
    if f["twos"]:
        if not (-(1 << (n - 1)) <= t < (1 << (n - 1))):
            return None
        return t & ((1 << n) - 1)
    if not (0 <= t < (1 << n)):
        return None
    return t


def sentinel(f: dict) -> int:
    n = f["len"]
    return (1 << (n - 1)) - 1 if (f["twos"] and n >= 4) else (1 << n) - 1


def neutral_code(f: dict, rng: random.Random | None = None) -> int:
    """an in-range, unremarkable code for the field"""
    k, n = f["kind"], f["len"]
    if f["match"] != -1:
        return f["match"]
    if k in ("num", "time", "date"):
        lo, hi = sm_int(f["lo"]), sm_int(f["hi"])
        t = 0 if lo <= 0 <= hi else lo
        if rng is not None and hi > lo:
            t = rng.randint(lo, hi)
        c = ticks_to_code(f, t)
        return c if c is not None else 0
    if k == "int":
        return (1 << n) - 1 if f["type"] == "RESERVED" else 0
    if k == "strfix":
        nb = n // 8
        txt = (b"AB" if rng is None else bytes(rng.choice(b"ABCDEFGHJKLMNPQRSTUVWXYZ0123456789-") for _ in range(rng.randint(0, nb))))[:nb]
        pad = b"\x00" if rng is None else rng.choice([b"\x00", b"\xff", b"@", b" "])
        return int.from_bytes(txt + pad * (nb - len(txt)), "little")
    if k == "float":
        return 0 if rng is None else struct.unpack("<I", struct.pack("<f", rng.choice([0.0, 1.5, -2.25, 100.0])))[0]
    if k == "bin":
        return 0 if rng is None else rng.getrandbits(n)
    if k in ("lookup", "bitlookup", "indirect"):
        return 0 if rng is None else rng.getrandbits(n)
    return 0


def boundary_codes(f: dict) -> list[tuple[str, int]]:
    """(class, code) for every boundary class the property's quantifier names"""
    k, n = f["kind"], f["len"]
    out: list[tuple[str, int]] = []
    if f["match"] != -1 or n < 0:
        return out
    full = (1 << n) - 1
    if k in ("num", "time", "date"):
        lo, hi = sm_int(f["lo"]), sm_int(f["hi"])
        cand = [("lo", lo), ("hi", hi), ("lo+1", lo + 1), ("hi-1", hi - 1), ("zero", 0), ("minus1", -1),
                ("lo-1", lo - 1), ("hi+1", hi + 1), ("mid", (lo + hi) // 2)]
        if f["twos"]:
            cand += [("minneg", -(1 << (n - 1))), ("maxpos-1", (1 << (n - 1)) - 2)]
        for name, t in cand:
            c = ticks_to_code(f, t)
            if c is not None:
                out.append((name, c))
        out.append(("sentinel", sentinel(f)))
        if n >= 3:
            out.append(("sentinel-1", sentinel(f) - 1))      # the 'error' indicator
        out.append(("allones", full))
        out.append(("allzero", 0))
        if n >= 2:
            out.append(("topbit", 1 << (n - 1)))
    elif k in ("lookup", "bitlookup", "int", "indirect", "bin"):
        out += [("allzero", 0), ("allones", full), ("one", 1), ("topbit", 1 << (n - 1)), ("alt", 0x5555555555555555 & full),
                ("alt2", 0xAAAAAAAAAAAAAAAA & full)]
    elif k == "strfix":
        nb = n // 8
        for name, bs in (("full", b"Z" * nb), ("empty0", b"\x00" * nb), ("emptyff", b"\xff" * nb),
                         ("at", (b"A@B" + b"\x00" * nb)[:nb]), ("sp", (b" A " + b"\xff" * nb)[:nb]),
                         ("nulmid", (b"AB\x00CD" + b"\x00" * nb)[:nb])):
            out.append((name, int.from_bytes(bs, "little")))
    elif k == "float":
        for name, x in (("zero", 0.0), ("one", 1.0), ("neg", -1.5), ("big", 3.0e38), ("tiny", 1e-40)):
            out.append((name, struct.unpack("<I", struct.pack("<f", x))[0]))
        out += [("allones", 0xFFFFFFFF), ("nan", 0x7FC00000), ("minus-zero", 0x80000000)]       # not available / NaN / -0.0
    seen, uniq = set(), []
    for name, c in out:
        if c not in seen:
            seen.add(c)
            uniq.append((name, c))
    return uniq


def table_sweep(db: dict, want=lambda d: True):
    """every key of every lookup / bit-lookup table once: (definition, tag, payload) through the first positioned,
    non-match field (of a definition `want` accepts) that uses the table, plus two codes the table does not know"""
    seen: set = set()
    for d in db["defs"]:
        if not want(d):
            continue
        for i, f in enumerate(d["fields"]):
            if f["kind"] not in ("lookup", "bitlookup") or f["off"] < 0 or f["len"] <= 0 or f["match"] != -1:
                continue
            key = (f["kind"], f["lookup"])
            tbl = (db["lookups"] if f["kind"] == "lookup" else db["bitlookups"]).get(f["lookup"])
            if key in seen or tbl is None:
                continue
            seen.add(key)
            full = (1 << f["len"]) - 1
            if f["kind"] == "lookup":
                known = sorted(int(k) for k in tbl if int(k) <= full)
                unknown = [c for c in range(min(full + 1, 4096)) if c not in set(known)][:2]
                codes = [(f"key{c}", c) for c in known] + [(f"nokey{c}", c) for c in unknown]
            else:
                bits = sorted(int(k) for k in tbl if int(k) < f["len"])
                codes = [(f"bit{b}", 1 << b) for b in bits] + [("bits-all", sum(1 << b for b in bits))]
                codes += [(f"nobit{b}", 1 << b) for b in range(f["len"]) if b not in set(bits)][:2]
            for name, c in codes:
                yield d, f"{i+1}:{name}", build_payload(d, {i: c})


def variable_tail(f: dict, rng: random.Random | None) -> bytes:
    k = f["kind"]
    if k == "strlau":
        txt = b"AB" if rng is None else bytes(rng.choice(b"ABCDEFGHJKLMNPQRSTUVWXYZ") for _ in range(rng.randint(0, 6)))
        return bytes([len(txt) + 2, 1]) + txt
    if k == "strlz":
        txt = b"AB" if rng is None else bytes(rng.choice(b"ABCDEFGHJKLMNPQRSTUVWXYZ") for _ in range(rng.randint(0, 6)))
        return bytes([len(txt)]) + txt + b"\x00"
    if f["len"] > 0:
        return neutral_code(f, rng).to_bytes((f["len"] + 7) // 8, "little")
    return b"\x01\x02"


def build_payload(d: dict, codes: dict[int, int], rng: random.Random | None = None) -> bytes:
    """codes: field index (0-based) -> code; missing fields get their neutral code."""
    data, cursor = 0, 0
    for i, f in enumerate(d["fields"]):
        if f["off"] >= 0:
            cursor = f["off"]
        if f["len"] >= 0 and f["kind"] not in ("strlau", "strlz"):
            c = codes.get(i)
            if c is None:
                c = neutral_code(f, rng)
            data |= (c & ((1 << f["len"]) - 1)) << cursor
            cursor += f["len"]
        else:
            tail = variable_tail(f, rng)
            if f["kind"] == "strlau" and isinstance(codes.get(i), (bytes, bytearray)):     # a given text (single-byte encoding)
                tail = bytes([len(codes[i]) + 2, 1]) + bytes(codes[i])
            elif f["kind"] == "strlz" and isinstance(codes.get(i), (bytes, bytearray)):
                tail = bytes([len(codes[i])]) + bytes(codes[i]) + b"\x00"
            if cursor % 8:
                cursor += 8 - cursor % 8
            data |= int.from_bytes(tail, "little") << cursor
            cursor += 8 * len(tail)
    nbytes = d["len"] if d["len"] > 0 else max((cursor + 7) // 8, d["minlen"], 1)
    nbytes = max(nbytes, (cursor + 7) // 8) if d["len"] <= 0 else nbytes
    return (data & ((1 << (8 * nbytes)) - 1)).to_bytes(nbytes, "little")


def basic_string(pgn: int, payload: bytes, src=1, dst=255, prio=3) -> str:
    return "2020-01-01-00:00:00.000,%d,%d,%d,%d,%d,%s" % (
        prio, pgn, src, dst, len(payload), ",".join("%02x" % b for b in payload))


def payloads_for(d: dict, rng: random.Random, n_random: int, pairwise: bool = False):
    """yield (tag, payload) for one definition"""
    yield "base", build_payload(d, {})
    for i, f in enumerate(d["fields"]):
        if f["len"] < 0 or f["kind"] in ("strlau", "strlz"):
            continue                      # (fields without BitOffset are placed at the running offset)
        for name, c in boundary_codes(f):
            yield f"{i+1}:{name}", build_payload(d, {i: c})
    if any(f["kind"] in ("strlau", "strlz") for f in d["fields"]):
        for k in range(4):
            yield f"text{k}", build_payload(d, {}, rng)
    for i, f in enumerate(d["fields"]):
        if f.get("indirect") and f["off"] >= 0 and f["indOff"] >= 0:
            # INDIRECT_LOOKUP: pairs (companion code, own code) the table knows, and neighbours it does not
            from .gen_db import build
            j = next(k for k, g in enumerate(d["fields"]) if g["off"] == f["indOff"] and g["len"] == f["indLen"])
            keys = sorted(build()["indirect"][f["indirect"]])
            picks = keys[:: max(1, len(keys) // 12)] + keys[-1:]
            for key in picks:
                a, b = (int(x) for x in key.split("_"))
                yield f"{i+1}:pair{key}", build_payload(d, {j: a, i: b})
                yield f"{i+1}:pair{key}+1", build_payload(d, {j: a, i: (b + 1) % (1 << f["len"])})
    if pairwise:
        idx = [i for i, f in enumerate(d["fields"]) if f["off"] >= 0 and f["len"] >= 0 and f["match"] == -1]
        for _ in range(min(40, len(idx) * 3)):
            if len(idx) < 2:
                break
            a, b = rng.sample(idx, 2)
            ca, cb = rng.choice(boundary_codes(d["fields"][a]) or [("z", 0)]), rng.choice(boundary_codes(d["fields"][b]) or [("z", 0)])
            yield f"{a+1}:{ca[0]}+{b+1}:{cb[0]}", build_payload(d, {a: ca[1], b: cb[1]})
    for k in range(n_random):
        yield f"rand-in{k}", build_payload(d, {}, rng)
    for k in range(max(1, n_random // 3)):
        codes = {i: rng.getrandbits(f["len"]) for i, f in enumerate(d["fields"])
                 if f["off"] >= 0 and f["len"] >= 0 and f["match"] == -1}
        yield f"rand-any{k}", build_payload(d, codes, rng)
