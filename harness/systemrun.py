"""Replay of behaviours of the composed specification (N2KSystem) into a real gateway client (part of C12).

TLC chooses the schedule (when the sender sends, how many bytes each read hands over); the bytes are the ones
the specification renders (so this part judges the receive side: re-framing, identifier and packet parsing,
decoder, queue, callback); the real client runs on the virtual-time loop and what its receive callback has seen
after every read is recorded and validated by TLC (Trace_System) against the decoder model fed the sender's
messages directly.
"""
from __future__ import annotations

import random

from . import decoderrun as dr
from . import vloop

KIND = {"ebyte": "ebyte", "usb": "waveshare", "yd": "yd", "actisense": "actisense"}
CFGS = {
    "NoFilter": ({"mode": "none", "nums": [], "ids": [], "mfrMode": "none", "mfrs": [], "netmap": False}, {}),
    "ExcludeB": ({"mode": "exclude", "nums": ["B"], "ids": [], "mfrMode": "none", "mfrs": [], "netmap": False},
                 {"exclude_pgns": [130306]}),
    "IncludeF": ({"mode": "include", "nums": [], "ids": ["F"], "mfrMode": "exclude", "mfrs": ["m2"], "netmap": False},
                 {"include_pgns": ["distanceLog"], "exclude_manufacturer_code": ["bep marine"]}),
}
SRC = [11, 12, 13]


def make_script(rng: random.Random, n: int):
    """script items with concrete, decodable content (no 0xAA 0x55 inside: the serial discipline's clean domain)"""
    items = []
    claimed = {}
    for i in range(n):
        src = rng.choice(SRC)
        k = rng.choice(["single", "single", "fast", "claim", "unknown", "fast"])
        if k == "claim":
            name = rng.choice([1, 2, 3])
            claimed[src] = name
            items.append({"k": "claim", "src": src, "prio": 6, "pgn": "CLAIM", "name": name,
                          "data": list(dr.name_payload(name, {11: 1, 12: 2, 13: 3}[src]))})
        elif k == "single":
            kind = rng.choice(["A", "B"])
            c = i + 1
            data = [c % 250, 0x10 + c % 100, 0x20, 0, 0, 0, 0, 0xFC] if kind == "A" else [c % 250, 0x10 + c % 100, 0x01, 0x20, 0x03, 0xFA, 0xFF, 0xFF]
            items.append({"k": "single", "src": src, "prio": rng.randrange(8), "pgn": kind, "name": 0, "data": data})
        elif k == "fast":
            full = [0x10 + i % 8, 0x20, 0x00, 0x10, 0x20, 0x01, i % 200, 0x02, 0x03, 0x00, 0x05, 0x06, 0x07, 0x00]
            items.append({"k": "fast", "src": src, "prio": 6, "pgn": "F", "name": 0, "data": full})
        else:
            items.append({"k": "unknown", "src": src, "prio": 6, "pgn": "U", "name": 0, "data": [1, 2, 3, 4, 5, 6, 7, 8]})
    return items


def project(m) -> dict:
    o = {"pgn": {v: k for k, v in dr.IDS.items()}.get(m.id, str(m.id)), "src": m.source, "tok": [], "ident": 0}
    iso = m.source_iso_name
    if iso is not None:
        o["ident"] = dr.NAMES.get(iso.name, 99)
    if m.PGN == dr.PGN["CLAIM"]:
        o["tok"] = [o["ident"]]
    else:
        h = dr._payload_hex(m)
        o["tok"] = list(bytes.fromhex(h)) if h else []
    return o


def run(fmt: str, cfgname: str, chunks: list[bytes], recv_cb="ok", gap: float = 2.0):
    """feed the chunks to a real client; returns the deliveries seen after every read (cumulative lists)"""
    for nm in (1, 2, 3):
        for s in (1, 2, 3):
            dr.NAMES[int.from_bytes(dr.name_payload(nm, s), "little")] = nm
    sess = vloop.Session()
    after: list[int] = []

    def scenario(s: vloop.Session):
        s.user("connect", s.client.connect)
        for i, ch in enumerate(chunks):
            s.at_time(1.0 + gap * i, lambda ch=ch: s.feed(1, ch))
            s.at_time(1.0 + gap * i + gap - 0.1, lambda: after.append(len(s.delivered)))

    events = sess.run(vloop.make_client_factory(KIND[fmt], **CFGS[cfgname][1]), scenario, until=1.0 + gap * len(chunks) + 2.0,
                      recv_cb=recv_cb)
    msgs = [project(m) for m in sess.delivered]
    return {"after": after, "msgs": msgs, "spin": bool(events[-1].get("spin"))}
