"""Developer aid: run one property's binding and print the violation classes compactly."""
import collections
import logging
import os
import sys

sys.path.insert(0, "/repo")
sys.path.insert(0, os.path.dirname(os.path.dirname(os.path.abspath(__file__))))
os.environ.setdefault("PYTHONHASHSEED", "0")
logging.disable(logging.CRITICAL)
import importlib  # noqa: E402

from harness.selftest import DryCheck  # noqa: E402

prop, tier = sys.argv[1], (sys.argv[2] if len(sys.argv) > 2 else "quick")
mod = importlib.import_module(f"harness.props.{prop.lower()}")
chk = DryCheck(prop.upper(), tier, 0, mod.LEVEL)
mod.bind(chk, tier, 0)
c = collections.Counter()
ex = {}
for k, v in chk.violations.items():
    if (chk.prop, k) in chk.known:
        continue
    parts = k.split("/")
    g = "/".join(parts[:2])
    c[g] += 1
    ex.setdefault(g, (k, v["what"]))
for g, n in sorted(c.items()):
    print(n, g, "|", ex[g][0], "|", ex[g][1][:200])
print(len(chk.violations), "classes;", {k: v for k, v in chk.coverage.items() if k != "samples"})
