"""The other public routes into the codec: the four encode_* methods of one long-lived encoder and the payload they put on the wire.

`wire_payload(enc, route, msg)` encodes `msg` through `route` and returns the CAN payload a receiver reassembles from the
packets (documented packet layouts: EByte 13 bytes = flags|length, 4 identifier bytes, 8 data bytes; Waveshare 20 bytes =
AA 55 01 01 01, identifier little-endian, length, 8 data bytes, 0, checksum; Yacht Devices `time R identifier data..\\r\\n`;
fast-packet frames = sequence/frame counter byte, first frame also the announced length).  This is plumbing: the payload it
returns is judged by TLC next to the payload the definition specifies.
"""
from __future__ import annotations

ROUTES = ("actisense", "ebyte", "usb", "yd")


def payload_of_actisense(line: str) -> bytes:
    toks = line.split()
    return bytes.fromhex(toks[2]) if len(toks) > 2 else b""


def frames_of(route: str, packets) -> list[bytes]:
    out = []
    for p in packets:
        if route == "ebyte":
            p = bytes(p)
            if len(p) != 13:
                raise ValueError(f"EByte packet of {len(p)} bytes")
            out.append(p[5:5 + (p[0] & 0x0F)])
        elif route == "usb":
            p = bytes(p)
            if len(p) != 20 or p[:2] != b"\xaa\x55":
                raise ValueError(f"USB packet {p.hex()}")
            out.append(p[10:10 + p[9]])
        elif route == "yd":
            text = bytes(p).decode("ascii")
            toks = text.strip().split()
            # (what the encoder writes is the send form `identifier data..`; the receive form has time and direction in front)
            out.append(bytes(int(t, 16) for t in (toks[3:] if len(toks) > 1 and toks[1] in ("R", "T") else toks[1:])))
        else:
            raise ValueError(route)
    return out


def reassemble(frames: list[bytes], fast: bool) -> bytes:
    if not fast:
        if len(frames) != 1:
            raise ValueError(f"{len(frames)} frames for a single-frame message")
        return frames[0]
    if not frames or len(frames[0]) < 2:
        raise ValueError("no first frame")
    total = frames[0][1]
    data = bytes(frames[0][2:]) + b"".join(bytes(f[1:]) for f in frames[1:])
    if len(data) < total:
        raise ValueError(f"frames carry {len(data)} of {total} announced bytes")
    return data[:total]


# What an encode_* call returned belongs to the caller: the last few results of every encoder are HELD (the very objects, next
# to a copy of their contents taken at return time) and looked at again after each later call on that encoder; a result whose
# contents have changed meanwhile is recorded in CHANGED_LATER (route, label of the earlier call, then, now).
HELD: dict[int, list] = {}
CHANGED_LATER: list[dict] = []
HOLD = 3


def _snapshot(packets):
    return [bytes(p) if not isinstance(p, str) else p.encode() for p in packets]


def look_again(enc) -> None:
    for route, label, obj, snap in HELD.get(id(enc), []):
        try:
            now = _snapshot(obj)
        except Exception as e:              # noqa: BLE001
            now = [repr(e).encode()]
        if now != snap and not any(c["label"] == label and c["route"] == route for c in CHANGED_LATER):
            CHANGED_LATER.append({"route": route, "label": label, "then": [b.hex() for b in snap], "now": [b.hex() for b in now]})


def wire_payload(enc, route: str, msg, fast: bool) -> bytes:
    if route == "actisense":
        return payload_of_actisense(enc.encode_actisense(msg))
    packets = {"ebyte": enc.encode_ebyte, "usb": enc.encode_usb, "yd": enc.encode_yacht_devices}[route](msg)
    look_again(enc)
    held = HELD.setdefault(id(enc), [])
    if isinstance(packets, list):
        held.append((route, f"{getattr(msg, 'id', '')}#{len(held)}", packets, _snapshot(packets)))
        del held[:-HOLD]
    return reassemble(frames_of(route, packets), fast)
