"""Abstraction functions: Python objects of the library -> the observable values N2KCodec talks about.

No verdicts here: a float is expressed as a multiple of the field's database resolution (exact
rational arithmetic), big integers as bit lists, enums by name.  Whether the multiple is the right
one is TLC's decision.
"""
from __future__ import annotations

import math
import struct
from datetime import date, time, timedelta
from fractions import Fraction

from .gen_db import bits_of, frac

TOL = Fraction(1, 2 ** 50)


def _blank(k="other"):
    return {"k": k, "neg": False, "mag": [], "exact": False, "s": "", "cp": [], "n": 0}


def pv(val, res: Fraction = Fraction(1), off: Fraction = Fraction(0), as_f32: bool = False) -> dict:
    o = _blank()
    if val is None:
        o["k"] = "none"
    elif isinstance(val, bool):
        o["s"] = repr(val)
    elif isinstance(val, (int, float)):
        if isinstance(val, float) and not math.isfinite(val):
            o["s"] = repr(val)
        elif as_f32:
            o["k"] = "f32"
            try:
                o["mag"] = bits_of(struct.unpack("<I", struct.pack("<f", val))[0])
            except (OverflowError, struct.error):
                o["k"], o["s"] = "other", repr(val)
        else:
            x = Fraction(val)
            t = round((x - off) / res)
            err = abs(x - (t * res + off))
            o.update(k="num", neg=t < 0, mag=bits_of(abs(t)), exact=err <= TOL * max(1, abs(x)))
    elif isinstance(val, str):
        o.update(k="str", s=val, cp=[ord(c) for c in val])
    elif isinstance(val, (bytes, bytearray)):
        o.update(k="bytes", mag=bits_of(int.from_bytes(val, "big")), n=len(val))
    elif isinstance(val, date):
        o.update(k="date", n=(val - date(1970, 1, 1)).days)
    elif isinstance(val, time):
        o.update(k="time", n=val.hour * 3600 + val.minute * 60 + val.second)
    else:
        o["s"] = repr(val)
    return o


def res_off(fdb: dict, raw_f: dict | None):
    """resolution/offset the observed number is expressed in (database literals, exact)."""
    if fdb["kind"] in ("num", "time", "date") and raw_f is not None:
        return frac(raw_f["Resolution"]), frac(raw_f.get("Offset", 0))
    return Fraction(1), Fraction(0)


def pfield(f, fdb: dict | None, raw_f: dict | None) -> dict:
    """f: NMEA2000Field; fdb: gen_db field record (None if the message has more fields than the def)."""
    kind = fdb["kind"] if fdb else "other"
    res, off = res_off(fdb, raw_f) if fdb else (Fraction(1), Fraction(0))
    f32 = kind == "float"
    q = f.physical_quantities
    t = f.type
    return {
        "id": f.id, "name": f.name if f.name is not None else "",
        "unit": f.unit_of_measurement if f.unit_of_measurement is not None else "",
        "qty": getattr(q, "name", "" if q is None else str(q)),
        "type": getattr(t, "name", str(t)),
        "pk": bool(f.part_of_primary_key),
        "v": pv(f.value, res, off, f32), "r": pv(f.raw_value, res, off, f32),
    }


def phdr(msg) -> dict:
    ttl = msg.ttl
    return {"pgn": msg.PGN, "id": msg.id, "desc": msg.description,
            # (anything but a timedelta is not the database's interval: -2 never matches)
            "ttl": -1 if ttl is None else int(ttl / timedelta(milliseconds=1)) if isinstance(ttl, timedelta) else -2}


def pmsg(msg, d: dict | None, raw_def: dict | None) -> dict:
    fs = []
    for i, f in enumerate(msg.fields):
        fdb = d["fields"][i] if d and i < len(d["fields"]) else None
        rf = raw_def["Fields"][i] if raw_def and i < len(raw_def["Fields"]) else None
        fs.append(pfield(f, fdb, rf))
    return {"hdr": phdr(msg), "f": fs}
