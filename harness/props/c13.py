"""C13 — gateway clients recover from every connection fault and never stall the loop.

B1  MC_Client: the await-granular model of connect / receive loop / consumer / close / status
    callbacks (spec/N2KClient.tla) composed with the monitor of the property (N2KClientMon), for
    fast and for suspending status callbacks: MonitorQuiet (no clause ever trips), OneReceivePath,
    LockDiscipline, NeverStuck (a quiescent client that was not closed is connected and reading),
    AllShut, ClosedFinal; every interleaving of 2 user connects, spawned connects, 3 connection
    attempts, refusals, a fed frame, an end of stream, a failing send and close().
B3  the four real clients on the virtual-time loop: one fault (end of stream, reset, garbage then end
    of stream, failing write during a send, the EByte 'Sorry,Limited' banner) injected at every loop
    step of the session (before connect completes, during back-off after refusals, between and
    inside packets), for gateways that refuse 0 or 3 attempts first, with fast and suspending status
    callbacks; each event log is validated by TLC against the monitor (Trace_Client): DISCONNECTED
    reported before the next attempt, growing / capped / non-zero retry delays, one receive path on
    the current link, CONNECTED and a delivered probe frame once the gateway has accepted for 30 s,
    heartbeat of an independent task, no spinning read loop.
"""
from __future__ import annotations

import contextlib
import json
import random

from .. import clientfaults as cf
from .. import vloop
from ..common import Check, workdir
from ..tlc import run_tlc, run_trace_tlc

LEVEL = "model_checking"
FAULTS = ("eof", "reset", "timeout", "garbage-eof", "refused-eof", "write-error", "sorry")


def model(chk: Check, tier: str, prefix="C13"):
    import re
    from concurrent.futures import ThreadPoolExecutor
    tot_s = tot_t = 0
    cfgs = (("MC_Client_quick.cfg", "MC_Client_slow.cfg", "MC_Client_slowC.cfg") if tier != "thorough" else
            ("MC_Client_thorough.cfg", "MC_Client_slow_thorough.cfg", "MC_Client_slowC_thorough.cfg"))

    def one(cfg):       # the three callback regimes side by side; action counts (-coverage) for the vacuity gates
        return run_tlc("MC_Client", cfg, name="MC_Client-" + cfg[10:-4], timeout=7200, coverage=(tier != "thorough"), workers=6,
                       heap="12g" if tier == "thorough" else "6g")
    with ThreadPoolExecutor(3) as ex:
        results = list(ex.map(one, cfgs))
    # the serial client (CfgWrite: a configuration write inside the connect attempt that may fail): instant and suspending callbacks
    serial = (("MC_Client_serial.cfg", "MC_Client_serial_slow.cfg") if tier != "thorough" else
              ("MC_Client_serial_thorough.cfg", "MC_Client_serial_slow_thorough.cfg"))
    # close() called twice (NCl = 2: the second call while the first is at work, after it returned, or after it was abandoned by its
    # caller inside its suspending notification)
    twice = (("MC_Client_close2.cfg", "MC_Client_close2_slow.cfg") if tier != "thorough" else
             ("MC_Client_close2_thorough.cfg", "MC_Client_close2_slow_thorough.cfg"))
    # several send() calls over a behaviour (MaxSend = 3: the user's, and a network-map client's own requests): failures of more
    # than one of them, on the same link and across reconnections
    sends = (("MC_Client_sends.cfg", "MC_Client_sends_slow.cfg") if tier != "thorough" else
             ("MC_Client_sends_thorough.cfg", "MC_Client_sends_slow_thorough.cfg"))
    if tier != "thorough":
        # the quick tier takes one configuration of each family (the richer one); the thorough tier both, with larger constants
        serial, twice, sends = serial[1:], twice[1:], sends[:1]
        with ThreadPoolExecutor(3) as ex:
            results += list(ex.map(one, serial + twice + sends))
    else:
        with ThreadPoolExecutor(2) as ex:
            results += list(ex.map(one, serial))
            results += list(ex.map(one, twice))
            results += list(ex.map(one, sends))
    cfgs = cfgs + serial + twice + sends
    for cfg, r in zip(cfgs, results):
        for inv in r.violated:
            viol = ""
            m = re.findall(r'viol \|-> "([^"]*)"', r.out)
            if m:
                viol = m[-1]
            chk.violation(f"spec/{inv}/{viol}", f"TLC: {inv} violated in MC_Client ({cfg}) {viol}", {"tlc": r.error_text(60)})
        for a in ("COpened", "COpenFailed", "RFault", "RCancelled", "CallClose", "SendFail", "CWake", "ClWake", "PGet"):
            chk.gate(tier == "thorough" or r.coverage.get(f"N2KClient.{a}", (0, 0))[0] > 0, f"MC_Client action {a} never taken in {cfg}")
        chk.gate(tier == "thorough" or cfg not in serial or r.coverage.get("N2KClient.CCfgFail", (0, 0))[0] > 0,
                 f"MC_Client action CCfgFail never taken in {cfg}")
        chk.gate(tier == "thorough" or cfg != "MC_Client_close2_slow.cfg" or r.coverage.get("N2KClient.AbandonClose", (0, 0))[0] > 0,
                 f"MC_Client action AbandonClose never taken in {cfg}")
        chk.gate(r.distinct > 5000, f"MC_Client/{cfg} explored only {r.distinct} states")
        tot_s += r.distinct
        tot_t += r.generated
    chk.add(states=tot_s, transitions=tot_t)


def fault_injector(kind: str, fault: str, step: int | None, at: float | None, plan: cf.Plan):
    def inject(s: vloop.Session, state: dict):
        def fire():
            conns = [c for c in s.readers if not s.writers[c].closed]
            if not conns:
                return
            c = max(conns)
            r = s.readers[c]
            if r.at_eof() or r.exception() is not None:
                return
            state["last_disturbance"] = s.loop.time()
            if fault == "eof":
                s.eof(c)
            elif fault == "reset":
                s.reset(c)
            elif fault == "timeout":          # keep-alive expiry: the read fails with TimeoutError (an OSError)
                s.ev("Reset", conn=c)
                s.readers[c].set_exception(TimeoutError(110, "Connection timed out"))
            elif fault == "refused-eof":      # a well-formed packet the decoder refuses by raising (three kinds), then the end of the stream
                for lab in ("out-of-range", "truncated-fast", "unsupported-raises"):
                    for p_, l_ in cf.cr.wire_packets(kind, cf.cr.sample_messages(random.Random(1), 1), random.Random(0)):
                        if l_ == lab:
                            s.feed(c, p_)
                s.loop.call_later(1.0, lambda: (not s.readers[c].at_eof()) and s.eof(c))
            elif fault == "garbage-eof":
                s.feed(c, b"\x01garbage\xff\xaa\x55 not a packet\r\n\x00\x00")
                s.eof(c)
            elif fault == "sorry":
                s.ev("Banner", conn=c)          # the gateway refuses service on this link: the client will abandon it
                s.feed(c, b"Sorry,Limited")
            elif fault.startswith("write-error-late-eof"):
                # the write fails first; the reading side of the old link only ends 0.1 s later, when the
                # replacement connection is already being reported
                plan.write_fail_after = plan.total_writes
                s.user("send", lambda: s.client.send(cf.iso_request()))
                s.loop.call_later(0.05, lambda: setattr(plan, "write_fail_after", None))
                s.loop.call_later(float(fault.split("@")[1]), lambda: (not s.readers[c].at_eof()) and s.eof(c))
            elif fault == "write-error":
                plan.write_fail_after = plan.total_writes      # every later write fails until the next connection
                s.ev("Eof", conn=c)                             # the link is dead: reads end as well
                s.readers[c].feed_eof()
                s.user("send", lambda: s.client.send(cf.iso_request()))
                s.loop.call_later(0.5, lambda: setattr(plan, "write_fail_after", None))
        if step is not None:
            s.at_step(step, fire)
        else:
            s.at_time(at, fire)
    return inject


CONF: list = []          # (callback regime, conformance log, description) of sessions the model covers


class StaleSendPlan(cf.Plan):
    """from t0 on, drain() on the link that is current at t0 suspends for `delay` seconds and then fails"""

    def __init__(self, refuse: int, delay: float):
        super().__init__(refuse=refuse)
        self.delay, self.sess, self.t0, self.link = delay, None, None, None

    def _old(self, conn):
        if self.sess is None or self.t0 is None or self.sess.loop.time() < self.t0:
            return False
        if self.link is None:
            self.link = conn
        return conn == self.link

    def drain_delay(self, conn, nth):
        return self.delay if self._old(conn) else None

    def drain_fails(self, conn, nth):
        return self._old(conn)


def sessions(tier: str, seed: int, kinds=vloop.CLIENTS):
    logs, meta = [], []
    CONF.clear()
    for kind in kinds:
        for refuse in (0, 3):
            base, raw = cf.run(kind, cf.Plan(refuse=refuse))
            logs.append(base)
            meta.append((kind, "none", refuse, "ok", "baseline"))
            CONF.append(("ok", cf.conformance_log(raw), f"{kind} baseline refuse={refuse}"))
            t_conn = next((e["t"] for e in raw if e["e"] == "Status" and e["s"] == "CONNECTED"), None)
            if t_conn is None:
                continue
            s_conn = next(e["step"] for e in raw if e["e"] == "Status" and e["s"] == "CONNECTED")
            s_deliv = next((e["step"] for e in raw if e["e"] == "Deliver"), s_conn + 8)
            steps = list(range(max(1, s_conn - 2), s_deliv + 6))
            if tier == "selftest":
                steps = steps[::3]
            for fault in FAULTS:
                if fault == "sorry" and kind != "ebyte":
                    continue
                if fault == "write-error" and kind == "actisense":
                    continue            # no encoder: that client never writes
                for k in steps:
                    plan = cf.Plan(refuse=refuse)
                    log, raw2 = cf.run(kind, plan, fault_injector(kind, fault, k, None, plan))
                    logs.append(log)
                    meta.append((kind, fault, refuse, "ok", f"step{k - s_conn:+d}"))
                    # (the serial client writes a configuration packet inside its connect step; a write that fails there is an
                    #  attempt failing after the port was opened: CCfgFail of the model with CfgWrite = TRUE)
                    if fault in ("eof", "reset", "timeout", "write-error"):
                        CONF.append(("ok", cf.conformance_log(raw2), f"{kind} {fault} step{k - s_conn:+d} refuse={refuse}"))
                if fault == "sorry":
                    continue            # the banner is sent instead of traffic, not inside a packet
                # mid-packet: half a packet, then the fault
                plan = cf.Plan(refuse=refuse)
                pk = cf.valid_packet(kind, 2)

                def mid(s, state, plan=plan, fault=fault, pk=pk, t=t_conn + 3.0):
                    s.at_time(t, lambda: max(s.readers, default=0) and s.feed(max(s.readers), pk[:len(pk) // 2]))
                    fault_injector(kind, fault, None, t + 0.5, plan)(s, state)
                log, _ = cf.run(kind, plan, mid)
                logs.append(log)
                meta.append((kind, fault, refuse, "ok", "mid-packet"))
            # suspending status callback: the fault lands while CONNECTED / DISCONNECTED is being reported
            for fault in ("eof", "reset", "write-error", "write-error-late-eof@0.1", "write-error-late-eof@0.4", "write-error-late-eof@0.7"):
                if fault.startswith("write-error") and kind == "actisense":
                    continue
                for dt in (0.05, 0.15, 0.25, 0.35, 0.45, 1.0, 2.0):
                    for cb in ("slow", "slowC", "slowD"):
                        plan = cf.Plan(refuse=refuse)
                        log, raw2 = cf.run(kind, plan, fault_injector(kind, fault, None, t_conn + dt, plan), status_cb=cb)
                        logs.append(log)
                        meta.append((kind, fault, refuse, cb, f"+{dt}s"))
                        if fault in ("eof", "reset"):
                            CONF.append((cb, cf.conformance_log(raw2), f"{kind} {fault} +{dt}s refuse={refuse} callback={cb}"))
            # a send() suspended in drain() on the old link fails only after the link has been replaced (found by TLC:
            # MC_Client NeverStuck once send() was modelled as start / suspended / failed): the failure lands while
            # connect() reports CONNECTED through a suspending callback, or after it
            if kind != "actisense":
                for delay in (0.06, 0.2, 0.4):
                    for cb in ("ok", "slowC", "slow"):
                        plan = StaleSendPlan(refuse, delay)

                        def stale(s, state, plan=plan, t=t_conn + 3.0):
                            plan.sess, plan.t0 = s, t - 0.1
                            s.at_time(t - 0.05, lambda: s.user("send", lambda: s.client.send(cf.iso_request())))
                            fault_injector(kind, "eof", None, t, plan)(s, state)
                        log, _ = cf.run(kind, plan, stale, status_cb=cb)
                        logs.append(log)
                        meta.append((kind, "stale-send", refuse, cb, f"drain {delay}s"))
            # two faults in a row (the second on the reconnected link)
            plan = cf.Plan(refuse=refuse)

            def twice(s, state, plan=plan, t=t_conn):
                fault_injector(kind, "eof", None, t + 2.0, plan)(s, state)
                fault_injector(kind, "reset", None, t + 12.0, plan)(s, state)
            log, _ = cf.run(kind, plan, twice)
            logs.append(log)
            meta.append((kind, "eof+reset", refuse, "ok", "twice"))
    # fault after fault after fault: every recovery must be as good as the first (nothing may be left over from the
    # previous connection, no counter may run out); half a packet is pending at each fault
    for kind in kinds:
        for order in (("eof", "reset", "garbage-eof", "eof"), ("reset", "eof", "eof", "reset")):
            plan = cf.Plan(refuse=0)
            pk = cf.valid_packet(kind, 2)

            def chain(s, state, plan=plan, order=order, pk=pk):
                for j, fault in enumerate(order):
                    t = 3.0 + 6.0 * j
                    s.at_time(t - 0.5, lambda: max(s.readers, default=0) and not s.readers[max(s.readers)].at_eof()
                              and s.feed(max(s.readers), pk[:len(pk) // 2]))
                    fault_injector(kind, fault, None, t, plan)(s, state)
            log, _ = cf.run(kind, plan, chain, t_end=70.0)
            logs.append(log)
            meta.append((kind, "+".join(order), 0, "ok", "fault after fault"))
    # a gateway that refuses nine attempts in a row: the pauses must grow up to the cap and stay there
    for kind in kinds:
        log, _ = cf.run(kind, cf.Plan(refuse=9), t_end=110.0)
        logs.append(log)
        meta.append((kind, "none", 9, "ok", "refused nine times"))
        plan = cf.Plan(refuse=7)
        log, _ = cf.run(kind, plan, fault_injector(kind, "eof", None, 60.0, plan), t_end=110.0)
        logs.append(log)
        meta.append((kind, "eof", 7, "ok", "refused seven times, then end of stream"))
    # clients built with network mapping on: after every (re)connection they send three requests of their own, two seconds apart
    # (the seeding of the map); a fault next to each of them, and long after
    for kind in kinds:
        for fault in ("eof", "reset", "write-error"):
            if fault == "write-error" and kind == "actisense":
                continue
            for dt in (0.3, 1.9, 2.1, 3.0, 4.05, 5.0, 6.5, 12.0):
                for cb in ("ok", "slowD"):
                    if cb != "ok" and dt not in (0.3, 3.0):
                        continue
                    plan = cf.Plan(refuse=0)
                    log, _ = cf.run(kind, plan, fault_injector(kind, fault, None, 0.0 + dt, plan), status_cb=cb,
                                    client_kwargs={"build_network_map": True})
                    logs.append(log)
                    meta.append((kind, fault + "/network-map", 0, cb, f"+{dt}s"))
    # the serial client writes a configuration packet inside every connect attempt: a port whose first writes fail makes the
    # attempt fail after the port was opened (1, 2, 3, 5 attempts in a row, from the start or after a fault; mixed with
    # refusals).  Each such attempt must be followed by a growing pause, its port shut, and the session must end CONNECTED.
    if "waveshare" in kinds:
        for refuse in (0, 2):
            for heal in (0.2, 0.7, 2.0, 9.0):
                for cb in ("ok", "slow", "raise"):
                    plan = cf.Plan(refuse=refuse, write_fail_after=0)

                    def first_writes_fail(s, state, plan=plan, heal=heal):
                        state["last_disturbance"] = heal
                        s.at_time(heal, lambda: setattr(plan, "write_fail_after", None))
                    log, raw = cf.run("waveshare", plan, first_writes_fail, status_cb=cb)
                    logs.append(log)
                    meta.append(("waveshare", "config-write", refuse, cb, f"writes fail for {heal}s"))
                    if cb in ("ok", "slow"):
                        CONF.append((cb, cf.conformance_log(raw), f"waveshare config-write fails for {heal}s refuse={refuse} callback={cb}"))
            for heal in (0.3, 1.2, 4.0):
                plan = cf.Plan(refuse=refuse)

                def after_fault(s, state, plan=plan, heal=heal):
                    fault_injector("waveshare", "eof", None, 8.0, plan)(s, state)
                    s.at_time(7.9, lambda: setattr(plan, "write_fail_after", plan.total_writes))
                    s.at_time(8.0 + heal, lambda: (setattr(plan, "write_fail_after", None), state.__setitem__("last_disturbance", 8.0 + heal)))
                log, raw = cf.run("waveshare", plan, after_fault)
                logs.append(log)
                meta.append(("waveshare", "eof+config-write", refuse, "ok", f"writes fail for {heal}s after the fault"))
                CONF.append(("ok", cf.conformance_log(raw), f"waveshare eof, then config-write fails for {heal}s refuse={refuse}"))
    return logs, meta


class FuzzPlan(cf.Plan):
    """a gateway whose writes may stall (drain suspends) or fail from a given moment on, per connection"""

    def __init__(self, refuse: int, pending):
        super().__init__(refuse=refuse, pending=pending)
        self.sess = None
        self.stall: dict = {}      # connection -> (from time, seconds, fails afterwards)

    def _rule(self, conn):
        r = self.stall.get(conn)
        return r if r and self.sess is not None and self.sess.loop.time() >= r[0] else None

    def drain_delay(self, conn, nth):
        r = self._rule(conn)
        return r[1] if r else None

    def drain_fails(self, conn, nth):
        r = self._rule(conn)
        return bool(r and r[2])


def fuzz_sessions(n: int, seed: int, with_close: bool, kinds=vloop.CLIENTS):
    """random sessions: a gateway that refuses / delays some attempts, then two to five disturbances at random times -
    end of stream, reset, garbage, failing or stalled writes with sends in flight, extra connect() calls, frames fed
    in between, and (for C14) a close() somewhere - under a random status-callback regime; the monitor judges them all"""
    rng = random.Random(seed * 7919 + (1 if with_close else 0))
    logs, meta = [], []
    for i in range(n):
        kind = rng.choice(kinds)
        refuse = rng.choice([0, 0, 1, 2, 3])
        pending = rng.choice([None, None, None, 0.7, 2.0])
        cb = rng.choice(["ok", "ok", "slow", "slowC", "slowD", "raise"])
        plan = FuzzPlan(refuse, pending)
        k = rng.randint(2, 5)
        times = sorted(round(rng.uniform(0.05, 18.0), 3) for _ in range(k))
        acts = []
        for t in times:
            a = rng.choice(["eof", "reset", "timeout", "garbage-eof", "write-error", "stalled-send", "send", "connect", "feed", "feed-half"]
                           if kind != "actisense" else ["eof", "reset", "timeout", "garbage-eof", "connect", "feed", "feed-half", "send"])
            acts.append((t, a, rng.choice([0.05, 0.2, 0.4]), rng.random() < 0.6))
        t_close = round(rng.uniform(0.0, 19.0), 3) if with_close else None

        def inject(s, state, plan=plan, acts=acts, t_close=t_close, kind=kind):
            plan.sess = s
            pk = cf.valid_packet(kind, 2)
            for t, a, d, fails in acts:
                if a in ("eof", "reset", "timeout", "garbage-eof", "write-error"):
                    fault_injector(kind, a, None, t, plan)(s, state)
                elif a == "stalled-send":
                    def go(t=t, d=d, fails=fails):
                        if s.readers:
                            c = max(s.readers)
                            plan.stall[c] = (t, d, fails)
                            state["last_disturbance"] = max(state["last_disturbance"], t + d)
                            s.user("send", lambda: s.client.send(cf.iso_request()))
                            if fails:
                                s.loop.call_later(d + 0.01, lambda: (not s.readers[c].at_eof()) and s.readers[c].exception() is None
                                                  and not s.writers[c].closed and s.eof(c))
                    s.at_time(t, go)
                elif a == "send":
                    s.at_time(t, lambda: s.user("send", lambda: s.client.send(cf.iso_request())))
                elif a == "connect":
                    s.at_time(t, lambda: s.user("connect", s.client.connect))
                elif a in ("feed", "feed-half"):
                    def feed(half=(a == "feed-half")):
                        if s.readers:
                            c = max(s.readers)
                            r = s.readers[c]
                            if not r.at_eof() and r.exception() is None and not s.writers[c].closed and not half:
                                pass        # whole frames are fed (and accounted for) by the session itself after every accept
                            elif not r.at_eof() and r.exception() is None and not s.writers[c].closed:
                                # a frame in two reads 0.3 s apart (the rest follows only if the link is still there:
                                # a fault in between leaves half a packet pending at the fault)
                                if state.get("split_until", 0.0) > s.loop.time():
                                    return
                                s.feed(c, pk[:len(pk) // 2])
                                state["split_until"] = s.loop.time() + 0.3

                                def rest(c=c, r=r):
                                    if not r.at_eof() and r.exception() is None and not s.writers[c].closed \
                                            and s.client.state.name != "CLOSED":
                                        s.feed(c, pk[len(pk) // 2:])
                                s.loop.call_later(0.3, rest)
                    s.at_time(t, feed)
            if t_close is not None:
                def close_now():
                    state["last_disturbance"] = s.loop.time()
                    s.user("close", s.client.close)
                s.at_time(t_close, close_now)
        log, _ = cf.run(kind, plan, inject, status_cb=cb, t_end=70.0)
        logs.append(log)
        meta.append((kind, "fuzz:" + ",".join(f"{a}@{t}" for t, a, _, _ in acts) + (f",close@{t_close}" if with_close else ""),
                     refuse, cb, f"pending={pending}"))
    return logs, meta


def judge(chk: Check, wd, logs, meta, prefix: str, tag: str):
    # the logs are judged in six TLC processes side by side (contiguous parts; verdict indices are shifted back)
    from concurrent.futures import ThreadPoolExecutor
    nparts = max(1, min(6, len(logs) // 100))
    size = -(-len(logs) // nparts)

    def part(j):
        inp, outp = wd / f"{tag}-{j}.json", wd / f"{tag}-{j}-verdicts.json"
        inp.write_text(json.dumps(logs[j * size:(j + 1) * size]))
        _, vj = run_trace_tlc("Trace_Client", "Trace_Client.cfg", inp, outp, name=f"Trace_Client-{tag}-{j}", heap="2g",
                              extra_env={"FOCUS": prefix})   # the monitor records the clauses of this property only
        return vj
    with ThreadPoolExecutor(nparts) as ex:
        vs = list(ex.map(part, range(nparts)))
    v = {"n": sum(x["n"] for x in vs), "bad": [dict(b, k=b["k"] + j * size) for j, x in enumerate(vs) for b in x["bad"]]}
    chk.gate(v["n"] == len(logs), "Trace_Client did not judge every log")
    other = {}
    for b in v["bad"]:
        kind, fault, refuse, cb, where = meta[b["k"] - 1]
        if not b["c"].startswith(prefix + "."):
            other[b["c"]] = other.get(b["c"], 0) + 1
            continue
        log = logs[b["k"] - 1]
        chk.violation(f"{b['c']}/{kind}/{fault}/callback={cb}",
                      f"{kind} client, fault {fault} at {where}, gateway refusing {refuse} first, status callback {cb}: {b['c']} "
                      f"at event {b['l']} {log[b['l'] - 1]}",
                      {"client": kind, "fault": fault, "where": where, "refuse": refuse, "callback": cb,
                       "events": log[max(0, b["l"] - 25):b["l"] + 3]})
    for c, n in other.items():
        chk.notes.append(f"{n} logs trip {c} (a clause of the other client-lifecycle property; reported by its own check)")
    return v


def conformance(chk: Check, wd, conf, tag: str):
    """are the recorded logs behaviours of the implementation-shaped model?  (DRIFT only)"""
    from concurrent.futures import ThreadPoolExecutor
    jobs = [(regime, cfg, serial) for regime, cfg in (("ok", "none"), ("slow", "slow"), ("slowC", "slowC"), ("slowD", "slowD"))
            for serial in (False, True)]          # logs of the serial client are behaviours of the model with CfgWrite = TRUE

    def one(job):
        regime, cfg, serial = job
        logs = [c for c in conf if c[0] == regime and c[2].startswith("waveshare") == serial]
        if not logs:
            return logs, None, None
        sfx = "-serial" if serial else ""
        inp, outp = wd / f"{tag}-conf-{regime}{sfx}.json", wd / f"{tag}-conf-{regime}{sfx}-out.json"
        inp.write_text(json.dumps([c[1] for c in logs]))
        r = run_tlc("Trace_ClientModel", f"Trace_ClientModel_{cfg}{'_serial' if serial else ''}.cfg",
                    env={"IN_FILE": str(inp), "OUT_FILE": str(outp)}, workers=1, name=f"Trace_ClientModel-{tag}-{regime}{sfx}",
                    timeout=3000, deadlock=False, heap="3g", dfs=True)
        return logs, r, outp
    with ThreadPoolExecutor(4) as ex:
        results = list(ex.map(one, jobs))
    total = accepted = 0
    for logs, r, outp in results:
        if r is None:
            continue
        chk.gate(not r.violated and outp.exists(), f"Trace_ClientModel failed: {r.error_text(20)}")
        res = json.loads(outp.read_text())
        for c, x in zip(logs, res):
            total += 1
            if x["reached"] > x["len"]:
                accepted += 1
            else:
                e = c[1][x["reached"] - 1]
                chk.drift.append(f"{c[2]}: not a behaviour of N2KClient from event {x['reached']} of {x['len']}: "
                                 f"{e['t']}ms {e['e']} {e['s'] or e['r'] or e['conn'] or e['k'] or ''} [{e['st']}]")
    chk.add(model_conformance_logs=total, model_conformance_accepted=accepted)
    return total, accepted


def bind(chk: Check, tier: str, seed: int):
    wd = workdir("C13")
    logs, meta = sessions(tier, seed)
    # random sessions on top of the directed ones (the run's seed picks them; the thorough tier takes many seeds)
    nfz = 0
    for k in range({"quick": 1, "thorough": 20, "selftest": 0}[tier]):
        fl, fm = fuzz_sessions({"quick": 150, "thorough": 250, "selftest": 0}[tier], seed * 100 + k, with_close=False)
        logs += fl
        meta += [(m[0], "fuzz", m[2], m[3], m[1]) for m in fm]
        nfz += len(fl)
    chk.add(random_sessions=nfz)
    judge(chk, wd, logs, meta, "C13", "c13")
    conformance(chk, wd, CONF if tier != "selftest" else [], "c13")
    per = {}
    for m in meta:
        per[(m[0], m[1])] = per.get((m[0], m[1]), 0) + 1
    rec = sum(1 for lg in logs if any(e["e"] == "Status" and e["s"] == "DISCONNECTED" for e in lg))
    chk.gate(rec > len(logs) // 4, f"only {rec} of {len(logs)} sessions ever reported DISCONNECTED: faults do not bite")
    chk.add(traces_validated_against_impl=len(logs), sessions={f"{k[0]}/{k[1]}": v for k, v in per.items()},
            sessions_with_disconnect=rec, events=sum(len(lg) for lg in logs))
    k = next(i for i, m in enumerate(meta) if m[1] == "eof" and m[4].startswith("step+"))
    chk.sample({"session": meta[k], "events": [f"{e['t']}ms {e['e']} {e['s'] or e['r'] or e['conn'] or e['k'] or ''} [{e['st']}]"
                                               for e in logs[k] if e["e"] not in ("ReadStart", "ReadEnd")][:30]})
    chk.assumptions += ["virtual-time asyncio loop (Python 3.12 internals); tenacity sleeps through asyncio.sleep",
                        "'settled' = the gateway accepted every attempt for the last 30 virtual seconds (scenario fact); "
                        "bounded liveness is judged at the end of the session"]


def run(tier: str, seed: int) -> int:
    chk = Check("C13", tier, seed, LEVEL)
    model(chk, tier)
    bind(chk, tier, seed)
    return chk.finish()


@contextlib.contextmanager
def mutant_no_reconnect_task():
    import nmea2000.ioclient as I
    orig = I.AsyncIOClient._receive_loop

    async def bad(self):
        try:
            while self._state != I.State.CLOSED:
                await self._receive_impl()
        except Exception:
            if self._state != I.State.CLOSED:
                await self._update_state(I.State.DISCONNECTED)       # reconnect task not spawned
    I.AsyncIOClient._receive_loop = bad
    try:
        yield
    finally:
        I.AsyncIOClient._receive_loop = orig


@contextlib.contextmanager
def mutant_backoff_zero():
    import nmea2000.ioclient as I
    orig = I.wait_exponential
    I.wait_exponential = lambda multiplier=0.5, max=10: orig(multiplier=0, max=max)
    try:
        yield
    finally:
        I.wait_exponential = orig


@contextlib.contextmanager
def mutant_disconnect_not_reported():
    import nmea2000.ioclient as I
    orig = I.AsyncIOClient._receive_loop

    async def bad(self):
        try:
            while self._state != I.State.CLOSED:
                await self._receive_impl()
        except Exception:
            if self._state != I.State.CLOSED:
                self._state = I.State.DISCONNECTED                    # state changed, callback skipped
                I.asyncio.create_task(self.connect())
    I.AsyncIOClient._receive_loop = bad
    try:
        yield
    finally:
        I.AsyncIOClient._receive_loop = orig


MUTANTS = {"reconnect task not spawned": mutant_no_reconnect_task, "back-off multiplier 0": mutant_backoff_zero,
           "DISCONNECTED not reported": mutant_disconnect_not_reported}
