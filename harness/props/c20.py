"""C20 — the serial (USB) stream resynchronises after noise with bounded buffering.

B1  MC_Resync: the marker discipline of N2KFraming on every stream of up to 3 (4 thorough) segments
    drawn from valid / corrupted / truncated packets and noise runs over {AA, 55, x}: NoBadChecksum,
    InOrderOnce, NoLossMarkerFree, AtMostOne, Bounded.  (Read-boundary independence: MC_Framing.)
B3  the real Waveshare client on the virtual-time loop: streams built from segment patterns (all
    patterns of 3 segments over 10 segment kinds followed by two valid packets; long noise runs up
    to 10^5 / 10^6 bytes) with real 20-byte packets from encode_usb, delivered under several
    segmentations; per session the delivered identities and the bytes held back after every read
    (size of the byte containers reachable from the client object, no attribute named) are judged
    by TLC (Trace_Framing MODE=C20) clause by clause; agreement with the framing model's exact
    output is reported as DRIFT only.
"""
from __future__ import annotations

import contextlib
import itertools
import random

from .. import clientrun as cr
from .. import vloop
from ..common import Check, workdir
from ..tlc import run_tlc
from .c12 import judge

LEVEL = "model_checking"
M = b"\xaa\x55"
KINDS = ["V", "C", "T1", "T15", "T19", "Nfree1", "Nfree21", "Nmark", "Nhalf", "Nborder"]


def model(chk: Check, tier: str):
    cfg = "MC_Resync_thorough.cfg" if tier == "thorough" else "MC_Resync.cfg"
    r = run_tlc("MC_Resync", cfg, name="MC_Resync", timeout=3000)
    for inv in r.violated:
        chk.violation(f"spec/{inv}", f"TLC: {inv} violated in MC_Resync", {"tlc": r.error_text(60)})
    chk.gate(r.distinct > 50000, f"MC_Resync explored only {r.distinct} states")
    chk.add(states=r.distinct, transitions=r.generated)


def seg(kind, head=b"", fill=0, n=0, tail=b"", token=0):
    return {"kind": kind, "head": list(head), "fill": fill, "n": n, "tail": list(tail), "token": token}


def seg_bytes(s) -> bytes:
    return bytes(s["head"]) + bytes([s["fill"]]) * s["n"] + bytes(s["tail"])


def false_valid_window(stream: bytes, valid: set[bytes]) -> bool:
    """input shaping: would the marker scan see a window with a matching checksum that is not a sent packet?"""
    i = 0
    while True:
        st = stream.find(M, i)
        if st == -1 or st + 20 > len(stream):
            return False
        w = stream[st:st + 20]
        if w not in valid and (sum(w[2:19]) & 0xFF) == w[19]:
            return True
        i = st + 20


def build(pattern, packets: list[bytes], rng: random.Random):
    """pattern of segment kinds -> (segments, valid packet bytes by token)"""
    segs, tok = [], 0
    it = iter(packets)
    for k in pattern:
        if k == "V":
            p = next(it)
            tok += 1
            segs.append(seg("valid", head=p, token=tok))
        elif k == "C":
            p = bytearray(next(it))
            p[11] ^= 0x04
            segs.append(seg("corrupt", head=bytes(p)))
        elif k == "Cs":                       # another damaged copy of one and the same packet (same identifier)
            p = bytearray(packets[-1])
            p[10 + rng.randrange(8)] ^= 1 << rng.randrange(8)
            segs.append(seg("corrupt", head=bytes(p)))
        elif k.startswith("T"):
            p = next(it)
            lost = int(k[1:])
            cutat = rng.randrange(2, 20 - lost + 1) if lost < 18 else 20 - lost
            segs.append(seg("trunc", head=p[:cutat] + p[cutat + lost:]))
        elif k == "Nfree1":
            segs.append(seg("noise", head=bytes([rng.choice([0x00, 0x07, 0x55, 0xFE])])))
        elif k == "Nfree21":
            segs.append(seg("noise", head=bytes(rng.choice([1, 2, 3, 0x55, 0x7F, 0xFE]) for _ in range(21))))
        elif k == "Nmark":
            body = bytes(rng.choice([1, 2, 3, 9]) for _ in range(rng.choice([4, 18, 19, 30])))
            segs.append(seg("noise", head=body[:2] + M + body[2:]))
        elif k == "Nhalf":
            segs.append(seg("noise", head=bytes(rng.choice([1, 2, 3]) for _ in range(5)) + b"\xaa"))
        elif k == "Nborder":
            segs.append(seg("noise", head=b"\x55" + bytes(rng.choice([1, 2, 3]) for _ in range(7))))
        elif k.startswith("Long"):          # Long<n>[m]: n fill bytes, optionally a marker near the end
            n = int(k[4:].rstrip("m"))
            segs.append(seg("noise", head=b"\x01\x02", fill=0x33, n=n, tail=(M + b"\x01\x02\x03") if k.endswith("m") else b"\x04"))
    return segs


def usb_packets(n: int) -> list[bytes]:
    from nmea2000.encoder import NMEA2000Encoder
    msgs = cr.sample_messages(random.Random(1), n)
    out = []
    for m in msgs:
        p = NMEA2000Encoder().encode_usb(m)[0]
        assert p.find(M, 2) == -1, "sample packet contains the marker after its header"
        out.append(p)
    return out


def session(segs, chunks_of, recv_cb="ok", deaf_until: int | None = None):
    """deaf_until = i: no receive callback is registered while the first i pieces arrive (set_receive_callback is called late, or
    was given None for a while); valid packets complete by then are nobody's - but what the client holds back stays bounded"""
    stream = b"".join(seg_bytes(s) for s in segs)
    sess = vloop.Session()
    held: list[int] = []
    pieces = chunks_of(stream)

    def scenario(s: vloop.Session):
        s.user("connect", s.client.connect)
        if deaf_until is not None:
            s.at_time(1.0 + 2.0 * deaf_until - 0.05, lambda: s.register_receiver("late"))
        for i, ch in enumerate(pieces):
            s.at_time(1.0 + 2.0 * i, lambda ch=ch: s.feed(1, ch))
            s.at_time(1.0 + 2.0 * i + 1.9, lambda: held.append(cr.held_bytes(s.client)))
    # every third session: a second serial client (another adapter) lives in the process and reads packets in 7-byte pieces
    cr.SESSIONS[0] += 1
    by = ("waveshare", b"".join(usb_packets(6))) if cr.SESSIONS[0] % 3 == 0 and len(pieces) < 400 else None
    events = sess.run(vloop.make_client_factory("waveshare"), scenario, until=1.0 + 2.0 * len(pieces) + 2.0, recv_cb=recv_cb,
                      register="first" if deaf_until is None else "scenario", bystander=by)
    unheard, pos_, arrived = [], 0, sum(len(p) for p in pieces[:deaf_until or 0])
    for s_ in segs:
        pos_ += len(seg_bytes(s_))
        if s_["kind"] == "valid" and deaf_until is not None and pos_ <= arrived:
            unheard.append(s_["token"])
    valid_msgs = {}
    from nmea2000.decoder import NMEA2000Decoder
    for s_ in segs:
        if s_["kind"] == "valid":
            valid_msgs[s_["token"]] = NMEA2000Decoder().decode_usb(bytes(s_["head"]))
    delivered = cr.match_delivered(sess.delivered, valid_msgs)
    reads = sess.reads.get(1, [])
    short = len(stream) <= 1500
    chunks, pos = [], 0
    if short:
        for n in reads:
            if n:
                chunks.append(list(stream[pos:pos + n]))
                pos += n
    packets = [s_["head"] for s_ in segs if s_["kind"] == "valid"]
    return {"disc": cr.DISC["waveshare"], "segs": segs, "chunks": chunks, "packets": packets,
            "tokens": [s_["token"] for s_ in segs if s_["kind"] == "valid"], "delivered": delivered, "held": held, "cap": 60,
            "spin": bool(events[-1].get("spin")), "after": [], "canonical": False, "unheard": unheard}


def bind(chk: Check, tier: str, seed: int):
    wd = workdir("C20")
    rng = random.Random(seed)
    pk = usb_packets(9)
    valid = set(pk)
    recs, meta = [], []
    plen = {"quick": 2, "thorough": 3, "selftest": 2}[tier]
    pats = [("V",) + p + ("V", "V") for p in itertools.product(KINDS, repeat=plen)]
    if tier == "selftest":
        pats = pats[::5]
    longs = [("V", f"Long{n}", "V", "V") for n in ((200, 10000, 100000) if tier != "thorough" else (200, 10000, 100000, 1000000))]
    longs += [("V", "Long10000m", "V", "V"), ("Long5000", "Nhalf", "V", "V"), ("V", "Long3000", "T15", "Long3000", "V", "V")]
    # long runs of valid packets behind a little noise: full-size reads with a partial packet pending
    runs = [("Nfree1",) + ("V",) * 8, ("V", "Nfree21") + ("V",) * 7, ("T19",) + ("V",) * 8, ("V",) * 8,
            # the same packet arrives damaged again and again: every copy is refused, not only the first
            ("V", "Cs", "Cs", "V", "Cs", "V"), ("Cs", "Cs", "Cs", "V", "V")]
    cutters = {"whole": lambda s: [s[i:i + 20000] for i in range(0, len(s), 20000)] or [s],
               "bytewise": lambda s: [s[i:i + 1] for i in range(len(s))],
               "split7": lambda s: [s[i:i + 7] for i in range(0, len(s), 7)],
               "split33": lambda s: [s[i:i + 33] for i in range(0, len(s), 33)],
               "split97": lambda s: [s[i:i + 97] for i in range(0, len(s), 97)],
               "7+rest": lambda s: [s[:7], s[7:]]}
    for pat in pats + longs + runs:
        for attempt in range(20):
            segs = build(pat, pk, rng)
            if not false_valid_window(b"".join(seg_bytes(s) for s in segs), valid):
                break
        else:
            continue
        long = any(k.startswith("Long") for k in pat)
        isrun = pat in runs
        for cname in (("whole", "split33") if long else ("whole", "split97", "7+rest", "split33") if isrun else ("whole", "bytewise", "split7")):
            if tier != "thorough" and not long and not isrun and cname != "whole" and rng.random() < 0.6:
                continue
            recs.append(session(segs, cutters[cname]))
            meta.append(("waveshare", "ok", cname, list(pat)))
    # nobody listens for a while (the receive callback is registered late): long runs of packets and of noise meanwhile
    for pat in (("V",) * 8, ("V", "Long10000", "V", "V", "V"), ("V", "V", "Long3000", "V", "Nfree21", "V", "V"), ("Long5000", "Nhalf", "V", "V")):
        for attempt in range(20):
            segs = build(pat, pk, rng)
            if not false_valid_window(b"".join(seg_bytes(s) for s in segs), valid):
                break
        else:
            continue
        for cname in ("split97", "split33"):
            npieces = len(cutters[cname](b"".join(seg_bytes(s) for s in segs)))
            for deaf in (npieces, max(1, npieces * 3 // 4), max(1, npieces // 2)):
                recs.append(session(segs, cutters[cname], deaf_until=deaf))
                meta.append(("waveshare", "ok", cname, list(pat) + [f"callback registered before read {deaf + 1}"]))
    v = judge(chk, wd, recs, meta, tag="c20", mode="C20")
    for k in v.get("drift", []):
        chk.drift.append(f"pattern {meta[k - 1][3]} ({meta[k - 1][2]}): delivered {recs[k - 1]['delivered']} differs from the framing model's exact output")
    lost = sum(1 for r in recs for t in r["tokens"] if t not in r["delivered"] and t not in r["unheard"])
    chk.gate(len(recs) >= (30 if tier == "selftest" else 150), f"only {len(recs)} sessions")
    # (how many packets a false marker costs is the implementation's business: zero is allowed, so this is a note,
    #  not a gate; the corpus itself is required to contain noise with markers)
    chk.gate(sum(1 for m in meta if any("Nmark" in str(x) for x in m[3])) >= 5, "the corpus has no noise containing the start marker")
    if lost == 0:
        chk.notes.append("no packet was lost after any noise (the implementation resynchronises without loss)")
    chk.add(traces_validated_against_impl=len(recs), patterns=len(pats) + len(longs), packets_lost_legitimately=lost,
            max_held=max((max(r["held"]) for r in recs if r["held"]), default=0), longest_stream=max(sum(len(seg_bytes(s)) for s in r["segs"]) for r in recs))
    k = next(i for i, m in enumerate(meta) if "Nmark" in m[3])
    chk.sample({"pattern": meta[k][3], "reads": meta[k][2], "delivered": recs[k]["delivered"], "held_after_each_read": recs[k]["held"][:12]})
    chk.assumptions += ["valid packets do not contain the start marker after their header; noise is re-rolled when a false window "
                        "with a matching checksum would arise (input shaping, probability 1/256 per false marker)",
                        "held-back bytes = total size of bytes/bytearray objects reachable from the client's own attributes"]


def run(tier: str, seed: int) -> int:
    chk = Check("C20", tier, seed, LEVEL)
    model(chk, tier)
    bind(chk, tier, seed)
    return chk.finish()


@contextlib.contextmanager
def mutant_no_checksum_test():
    import nmea2000.decoder as D
    orig = D.calculate_canbus_checksum
    D.calculate_canbus_checksum = lambda packet: packet[19]
    try:
        yield
    finally:
        D.calculate_canbus_checksum = orig


@contextlib.contextmanager
def mutant_window_19():
    import nmea2000.ioclient as I
    orig = I.WaveShareNmea2000Gateway._receive_impl

    async def bad(self):
        data = await self.reader.read(100)
        self._buffer.extend(data)
        while True:
            start = self._buffer.find(b"\xaa\x55")
            if start == -1:
                del self._buffer[:max(0, len(self._buffer) - 1)]
                break
            if start + 20 > len(self._buffer):
                del self._buffer[:start]
                break
            packet = self._buffer[start:start + 20]
            try:
                message = self.decoder.decode_usb(packet)
            except Exception:
                message = None
            if message is not None:
                await self.queue.put(message)
            else:
                self._buffer = self._buffer[start + 40:]      # a refused window throws away the next packet as well
                continue
            self._buffer = self._buffer[start + 20:]
    I.WaveShareNmea2000Gateway._receive_impl = bad
    try:
        yield
    finally:
        I.WaveShareNmea2000Gateway._receive_impl = orig


MUTANTS = {"checksum test removed": mutant_no_checksum_test, "refused window skips 40 bytes": mutant_window_19}
