"""C09 — encoding never silently corrupts a value.

B1  MC_EncodeLaws (IncLaw, ReprLaw, RoundLaw, InverseLaw) on the specification's encode operators.
B3  for every encodable definition: a base request (decoded from a neutral payload) and single-field
    variations (range ends, between two steps, exact half step, absent, one step beyond the
    representable ends, far out of range, negative for unsigned, NaN/inf, too-wide and negative
    codes for lookups/reserved/dates, one field removed); the real encoder's output (payload or
    error) is judged by TLC: allowed codes per field, must-refuse cases, locality against the
    base payload (Trace_Codec MODE=C09).
"""
from __future__ import annotations

import contextlib
import copy
import dataclasses
import math
import random
import struct
from fractions import Fraction

from .. import corpus, routes
from ..codec import load_db, validate
from ..common import SPEC, Check, workdir
from ..gen_db import bits_of, frac
from ..tlc import run_tlc
from .c02 import payload_of_actisense

LEVEL = "translation_validation"
EPS = Fraction(1, 10 ** 9)
LOOKUPS: dict = {}


def blank(k):
    return {"k": k, "neg": False, "mag": [], "cls": "zero", "s": ""}


def num_desc(v, res: Fraction, off: Fraction):
    if v is None:
        return blank("na")
    if isinstance(v, float) and not math.isfinite(v):
        return blank("nonfinite")
    q = (Fraction(v) - off) / res
    fl = math.floor(q)
    fr = q - fl
    if fr == 0:
        cls = "zero"
    elif abs(fr - Fraction(1, 2)) < max(EPS, abs(q) * Fraction(1, 2 ** 50)):   # a tie up to double rounding of value/res
        cls = "half"
    elif fr < Fraction(1, 2):
        cls = "lt"
    else:
        cls = "gt"
    return {"k": "num", "neg": fl < 0, "mag": bits_of(abs(fl)), "cls": cls, "s": ""}


def code_desc(v):
    if not isinstance(v, int) or isinstance(v, bool):
        return blank("free")
    return {"k": "code", "neg": v < 0, "mag": bits_of(abs(v)), "cls": "zero", "s": ""}


def req_of(fdb: dict, rawf: dict, fld) -> dict:
    """what the message asks the encoder to write for this field (mirrors which attribute the
    documented encoder contract reads: value for numbers, raw_value for lookups/dates/times)"""
    t = fdb["type"]
    if fld is None:
        return blank("missing")
    if t in ("NUMBER", "PGN"):
        return num_desc(fld.value, frac(rawf["Resolution"]), frac(rawf.get("Offset", 0)))
    if t in ("TIME", "DURATION"):
        if fld.raw_value is None and fld.value is None:
            return blank("na")
        if fld.raw_value is None:
            return blank("free")
        return num_desc(fld.raw_value, frac(rawf["Resolution"]), Fraction(0))
    if t == "LOOKUP":
        if fld.raw_value is not None:
            return code_desc(fld.raw_value)
        return dict(blank("name"), s=fld.value) if isinstance(fld.value, str) else blank("free")
    if t == "DATE":
        if fld.raw_value is None and fld.value is None:
            return blank("na")
        if isinstance(fld.raw_value, float) and fld.raw_value == int(fld.raw_value):
            return code_desc(int(fld.raw_value))
        return code_desc(fld.raw_value) if fld.raw_value is not None else blank("free")
    if t == "RESERVED":
        return code_desc(fld.value)
    if t == "FLOAT":
        if fld.value is None or (isinstance(fld.value, float) and not math.isfinite(fld.value)):
            return blank("free")
        try:
            return {"k": "bits", "neg": False, "mag": bits_of(struct.unpack("<I", struct.pack("<f", fld.value))[0]), "cls": "zero", "s": ""}
        except (OverflowError, struct.error):
            return blank("nonfinite")
    return blank("free")


SWEPT: set = set()


def variations(fdb: dict, rawf: dict, rng: random.Random, tier: str):
    """(class, attribute, value) single-field variations"""
    t, n = fdb["type"], fdb["len"]
    out = []
    if t in ("NUMBER", "PGN", "TIME", "DURATION"):
        res, off = frac(rawf["Resolution"]), frac(rawf.get("Offset", 0)) if t in ("NUMBER", "PGN") else Fraction(0)
        attr = "value" if t in ("NUMBER", "PGN") else "raw_value"
        lo, hi = corpus.sm_int(fdb["lo"]), corpus.sm_int(fdb["hi"])
        twos = fdb["twos"]
        rmax = ((1 << (n - 1)) - 2) if (twos and n >= 4) else ((1 << (n - 1)) - 1 if twos else (1 << n) - 2)
        rmin = -(1 << (n - 1)) if twos else 0

        def val(tk, add=Fraction(0)):
            x = (Fraction(tk) + add) * res + off
            return float(x) if (res.denominator != 1 or off.denominator != 1 or add) else int(x)
        mid = (lo + hi) // 2
        out += [("lo", attr, val(lo)), ("hi", attr, val(hi)), ("mid", attr, val(mid)),
                ("between", attr, val(mid, Fraction(3, 10))), ("between-hi", attr, val(mid, Fraction(7, 10))),
                ("half", attr, val(mid, Fraction(1, 2))),
                ("rep-max", attr, val(rmax)), ("rep-max+1", attr, val(rmax + 1)), ("rep-max+2", attr, val(rmax + 2)),
                ("rep-min", attr, val(rmin)), ("rep-min-1", attr, val(rmin - 1)),
                ("far", attr, val((1 << n) * 1000 + 7)), ("far-neg", attr, val(-(1 << n) * 1000 - 7)),
                ("wrap", attr, val((1 << n) + max(lo, 0) + 1)),
                ("absent", attr, None), ("nan", attr, float("nan")), ("inf", attr, float("inf"))]
        # the same number given as int and as float (a whole number between two steps of a coarse integer
        # resolution, a tick count given as a float)
        for cls, add in (("between", Fraction(3, 10)), ("between-hi", Fraction(7, 10)), ("half", Fraction(1, 2)), ("mid", Fraction(0))):
            x = (Fraction(mid) + add) * res + off
            if x.denominator == 1:
                out += [(cls + "/int", attr, int(x)), (cls + "/float", attr, float(x))]
        if tier == "thorough":
            out += [(f"rand{k}", attr, val(rng.randint(rmin, rmax), Fraction(rng.randint(0, 99), 100))) for k in range(6)]
        if t in ("TIME", "DURATION"):
            out = [(c, a, v) for c, a, v in out if c not in ("absent",)] + [("absent", "both", None)]
    elif t in ("LOOKUP", "DATE"):
        full = (1 << n) - 1
        out += [("zero", "raw_value", 0), ("max-1", "raw_value", full - 1), ("allones", "raw_value", full),
                ("too-wide", "raw_value", full + 1), ("too-wide+", "raw_value", (full + 1) * 3 + 1), ("negative", "raw_value", -1)]
        if t == "DATE":
            out.append(("absent", "both", None))
        if t == "LOOKUP":
            names = list(dict.fromkeys(LOOKUPS.get(fdb["lookup"], {}).values()))
            first_use = fdb["lookup"] not in SWEPT        # the first field that uses a table asks for every name in it
            SWEPT.add(fdb["lookup"])
            pick = names if (tier == "thorough" or len(names) <= 10 or first_use) else names[:4] + names[-3:] + rng.sample(names[4:-3], 3)
            out += [(f"name:{nm}", "name", nm) for nm in pick] + [("name:unknown", "name", "no such entry")]
    elif t == "RESERVED":
        full = (1 << n) - 1
        out += [("zero", "value", 0), ("allones", "value", full), ("too-wide", "value", full + 1), ("negative", "value", -1)]
    elif t == "FLOAT":
        out += [("one", "value", 1.0), ("neg", "value", -2.5), ("tiny", "value", 1e-30)]
    return out


def encode(enc, msg, route="actisense", fast=False):
    try:
        if route != "actisense":
            return "enc", list(routes.wire_payload(enc, route, msg, fast)), ""
        return "enc", list(payload_of_actisense(enc.encode_actisense(msg))), ""
    except ValueError as e:
        return "err", [], f"{e}"[:160]
    except Exception as e:                  # noqa: BLE001 - any other exception type is still a refusal
        return "err", [], f"{type(e).__name__}: {e}"[:160]


def model(chk: Check, tier: str):
    cfg = "MC_EncodeLaws_thorough.cfg" if tier == "thorough" else "MC_EncodeLaws_quick.cfg"
    r = run_tlc("MC_EncodeLaws", cfg, name="MC_EncodeLaws", timeout=3000, env={"DB_FILE": str(SPEC / "empty_db.json")})
    for inv in r.violated:
        chk.violation(f"spec/{inv}", f"TLC: {inv} violated in MC_EncodeLaws", {"tlc": r.error_text()})
    chk.gate(r.distinct > 500, f"MC_EncodeLaws explored only {r.distinct} states")
    chk.add(states=r.distinct, transitions=r.generated)


def bind(chk: Check, tier: str, seed: int):
    from nmea2000.decoder import NMEA2000Decoder
    from nmea2000.encoder import NMEA2000Encoder
    wd = workdir("C09")
    db, raw = load_db(wd)
    LOOKUPS.clear()
    SWEPT.clear()
    routes.HELD.clear()
    routes.CHANGED_LATER.clear()
    LOOKUPS.update(db["lookups"])
    raw_by_id = {p["Id"]: p for p in raw["PGNs"]}
    rng = random.Random(seed)
    dec, enc = NMEA2000Decoder(), NMEA2000Encoder()
    recs, meta = [], []
    shared_enc = NMEA2000Encoder()        # one encoder serves the packet routes in turn
    route_encs = {r: shared_enc for r in routes.ROUTES[1:]}
    encodable = [d for d in db["defs"] if d["encodable"]]
    if tier == "selftest":
        encodable = encodable[::4]
    base_ok = 0
    for d in encodable:
        rawd = raw_by_id[d["id"]]
        payload = corpus.build_payload(d, {}, rng if tier == "thorough" else None)
        try:
            msg = dec.decode_basic_string(corpus.basic_string(d["pgn"], payload), already_combined=True)
        except Exception:                  # noqa: BLE001
            continue
        if msg is None or msg.id != d["id"] or len(msg.fields) != len(d["fields"]):
            continue
        ret, e, err = encode(enc, msg)
        if ret != "enc":
            continue                          # the library cannot encode this definition: outside the domain
        base_ok += 1
        base_req = [req_of(f, rawd["Fields"][i], msg.fields[i]) for i, f in enumerate(d["fields"])]
        recs.append({"id": d["id"], "ret": ret, "e": e, "base": [], "changed": 0, "req": base_req, "err": err})
        meta.append((d["id"], "-", "base"))
        # the same request through the packet-producing routes (one long-lived encoder each; payload reassembled from the frames)
        for r in routes.ROUTES[1:]:
            ret_r, e_r, err_r = encode(route_encs[r], msg, r, d["fast"] == "fast")
            recs.append({"id": d["id"], "ret": ret_r, "e": e_r, "base": [], "changed": 0, "req": base_req, "err": err_r})
            meta.append((d["id"], "-", f"base/via-{r}"))
        for i, f in enumerate(d["fields"]):
            if f["match"] != -1:
                # a match field keeps its value; a lookup among them may still be requested by the name of that value
                nm = LOOKUPS.get(f["lookup"], {}).get(str(f["match"])) if f["type"] == "LOOKUP" else None
                var = [("name:match", "name", nm)] if nm is not None else []
            else:
                var = variations(f, rawd["Fields"][i], rng, tier)
            for nv, (cls, attr, v) in enumerate(var):
                m2 = copy.deepcopy(msg)
                # every other request is made the way an application edits a message it has already used: the message has been
                # encoded and queried once, then the field OBJECT is exchanged for a new one carrying the new value
                swap = nv % 2 == 1
                if swap:
                    encode(enc, m2)
                    m2.get_field_by_id(m2.fields[i].id)
                    m2.fields[i] = dataclasses.replace(m2.fields[i])
                if attr == "both":
                    m2.fields[i].value = m2.fields[i].raw_value = None
                elif attr == "name":
                    m2.fields[i].value, m2.fields[i].raw_value = v, None
                else:
                    setattr(m2.fields[i], attr, v)
                    if attr == "raw_value" and f["type"] in ("TIME", "DURATION", "DATE"):
                        pass
                ret2, e2, err2 = encode(enc, m2)
                req = list(base_req)
                req[i] = req_of(f, rawd["Fields"][i], m2.fields[i])
                recs.append({"id": d["id"], "ret": ret2, "e": e2, "base": e, "changed": i + 1, "req": req, "err": err2})
                meta.append((d["id"], f["id"], cls))
            # one field removed
            m3 = copy.deepcopy(msg)
            del m3.fields[i]
            ret3, e3, err3 = encode(enc, m3)
            req = list(base_req)
            req[i] = blank("missing")
            recs.append({"id": d["id"], "ret": ret3, "e": e3, "base": [], "changed": 0, "req": req, "err": err3})
            meta.append((d["id"], f["id"], "removed"))
            # the field exchanged for one with another id (the list keeps its length) after the message has been used once
            if i % 3 == 0:
                m4 = copy.deepcopy(msg)
                encode(enc, m4)
                m4.get_field_by_id(m4.fields[i].id)
                m4.fields[i] = dataclasses.replace(m4.fields[i], id="somethingElse")
                ret4, e4, err4 = encode(enc, m4)
                recs.append({"id": d["id"], "ret": ret4, "e": e4, "base": [], "changed": 0, "req": req, "err": err4})
                meta.append((d["id"], f["id"], "removed/exchanged"))
    # packets handed out earlier are the caller's: a later encode on the same encoder must not alter them
    for c in routes.CHANGED_LATER:
        chk.violation(f"encode.result-changed-later/{c['route']}",
                      f"packets returned for {c['label']} via {c['route']} read {c['now'][:2]} after later encodes; they were {c['then'][:2]} when returned", c)
    chk.gate(base_ok >= (40 if tier == "selftest" else 200), f"only {base_ok} definitions encode their base request")
    n_enc = sum(1 for r in recs if r["ret"] == "enc")
    chk.gate(n_enc > len(recs) // 4, f"only {n_enc} of {len(recs)} requests were encoded")
    bad = validate("C09", recs, wd)
    for i, vs in bad:
        did, fid, cls = meta[i]
        d = next(x for x in db["defs"] if x["id"] == did)
        for v in vs:
            vf = d["fields"][v["f"] - 1]["id"] if v["f"] > 0 else "-"
            if v["c"] == "encode.too-wide-accepted":
                # one finding per generator-template branch (field type) and request class, not per generated site
                key = f"{v['c']}/{d['fields'][v['f'] - 1]['type']}:{'negative' if cls == 'negative' else 'too-wide'}"
            else:
                kcls = "name" if cls.startswith("name:") else cls
                key = f"{v['c']}/{did}/{vf}:{kcls}" if vf == fid else f"{v['c']}/{did}/{vf}:when-{fid}-{kcls}"
            chk.violation(key,
                          f"{did}: request {fid}={cls} encoded to {bytes(recs[i]['e']).hex()} (base {bytes(recs[i]['base']).hex()}); field {vf}: {v['c']}",
                          {"def": did, "field": fid, "class": cls, "encoded": bytes(recs[i]["e"]).hex(),
                           "base": bytes(recs[i]["base"]).hex(), "request": recs[i]["req"][v["f"] - 1] if v["f"] > 0 else None})
    chk.add(programs=base_ok, disagreements_checked=len(recs), records=len(recs), encoded=n_enc,
            refused=len(recs) - n_enc, traces_validated_against_impl=len(recs))
    k = next(i for i, m in enumerate(meta) if m[2] == "between")
    chk.sample({"def": meta[k][0], "field": meta[k][1], "class": meta[k][2], "request": recs[k]["req"][recs[k]["changed"] - 1],
                "encoded": bytes(recs[k]["e"]).hex(), "base": bytes(recs[k]["base"]).hex()})
    chk.assumptions += ["requested numbers are described exactly (floor and fraction class by rational arithmetic); a fraction within 1e-9 of one half counts as a tie",
                        "representable = any code except the not-available pattern"]


def run(tier: str, seed: int) -> int:
    chk = Check("C09", tier, seed, LEVEL)
    model(chk, tier)
    bind(chk, tier, seed)
    return chk.finish()


@contextlib.contextmanager
def mutant_no_bounds():
    import nmea2000.pgns as P
    orig = P.encode_number

    def bad(value, bit_length, signed, resolution, offset=0):
        if value is None:
            return orig(value, bit_length, signed, resolution, offset)
        n = int(round((value - offset) / resolution))
        return n & ((1 << bit_length) - 1)
    P.encode_number = bad
    try:
        yield
    finally:
        P.encode_number = orig


@contextlib.contextmanager
def mutant_sentinel_not_reserved():
    import nmea2000.pgns as P
    orig = P.encode_number

    def bad(value, bit_length, signed, resolution, offset=0):
        try:
            return orig(value, bit_length, signed, resolution, offset)
        except ValueError:
            n = int(round((value - offset) / resolution))
            top = (1 << (bit_length - 1)) - 1 if (signed and not offset) else (1 << bit_length) - 1
            if n == top:
                return top
            raise
    P.encode_number = bad
    try:
        yield
    finally:
        P.encode_number = orig


MUTANTS = {"bounds check removed": mutant_no_bounds, "sentinel not reserved": mutant_sentinel_not_reserved}
