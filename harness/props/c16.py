"""C16 — decoder instances are isolated and unharmed by bad input.

B1  MC_Decoder (configuration family C16Cfgs: no filters; histories of 4 inputs): a decoder, its twin
    and a third instance that lives its own life; inputs include bad inputs (raise or are ignored),
    unknown PGNs and truncated fast-packet frames (counter byte, maybe a length byte, no data);
    BadInputsHarmless, NoCrossTalk (the other instance's steps never change this one),
    FreshMessageReturned (a complete message with a fresh sequence counter is returned after any
    history), plus the C10/C11 invariants.
B2+B3  TLC-generated behaviours are replayed into three real decoder objects alive at the same time
    (the third one receives claims, frames and garbage of its own between the steps), bad inputs drawn
    from eight kinds (truncated EByte packets, malformed Yacht Devices / Actisense / plain lines, a USB
    packet without marker, an out-of-range payload); every history is replayed a second time on fresh
    objects and must give the same record; the recorded histories are validated by TLC against
    N2KDecoder!Step (Trace_Decoder).  Default-argument and caller-list mutation is checked by
    constructing decoders with shared list objects.
"""
from __future__ import annotations

import contextlib
import json

from ..common import Check, workdir
from . import c10

LEVEL = "model_checking"
PROP = "C16"


def classify(clause: str, tr: dict, e: dict):
    side, what = clause.split(".", 1)
    return f"{what}/{e['in']['k']}{'' if e['in']['chunk'] or e['in']['k'] != 'frame' else '-truncated'}"


def with_bad_inputs(behs, seed: int):
    """the model says a bad input changes nothing, wherever it arrives: every generated history gets three more of
    them at random places (between the frames of a fast-packet message included) and is still a behaviour"""
    import random
    rng = random.Random(seed + 99)
    out = []
    for beh in behs:
        if len(beh) < 3:
            out.append(beh)
            continue
        beh = list(beh)
        cfg = beh[1][1]["cfg"]
        for _ in range(3):
            pos = rng.randrange(1, len(beh) + 1)
            beh.insert(pos, ("BadInserted", {"cfg": cfg, "ev": {"k": "bad"}}))
        out.append(beh)
    return out


def bind(chk: Check, tier: str, seed: int):
    wd = workdir(PROP)
    traces, outs, drops = c10.run_traces(chk, wd, PROP, tier, seed, classify, augment=lambda b: with_bad_inputs(b, seed))
    # determinism: the same behaviours replayed again on fresh objects give the same record
    from ..tlc import simulate
    from .. import decoderrun as dr
    import random
    num, depth = {"quick": (600, 16), "thorough": (6000, 16), "selftest": (600, 16)}[tier]
    beh = simulate("MC_Decoder", f"MC_Decoder_sim{PROP}.cfg", num=num, depth=depth, seed=seed + 7, name=f"dsim{PROP}b", only={"ev", "cfg"})
    again = dr.replay(with_bad_inputs(beh, seed), random.Random(seed))
    for i, (a, b) in enumerate(zip(traces, again)):
        if json.dumps(a["evs"], sort_keys=True) != json.dumps(b["evs"], sort_keys=True):
            k = next(j for j, (x, y) in enumerate(zip(a["evs"], b["evs"])) if x != y)
            chk.violation(f"not-deterministic/{a['evs'][k]['in']['k']}", f"history {i} replayed twice differs at step {k + 1}: "
                          f"{a['evs'][k]['obsU']} vs {b['evs'][k]['obsU']}", {"history": [c10.short(x['in']) for x in a["evs"][:k + 1]]})
    # shared default arguments / caller lists are not mutated
    from nmea2000.decoder import NMEA2000Decoder
    lists = ([127250, "windData"], ["Furuno"])
    before = json.dumps(lists)
    d1 = NMEA2000Decoder(exclude_pgns=lists[0], exclude_manufacturer_code=lists[1])
    d2 = NMEA2000Decoder(exclude_pgns=[60928])
    d3 = NMEA2000Decoder()
    if json.dumps(lists) != before:
        chk.violation("caller-list-mutated", f"constructor arguments changed: {lists}")
    if d3.exclude_pgns or d3.exclude_pgns_ids or getattr(d3, "iso_claim_filter", False):
        chk.violation("default-argument-shared", "a decoder constructed without filters has filters after another instance was configured")
    # the same for a family of constructor arguments: two instances built from the very same argument objects (as on
    # a reconnect, or when one configuration dict serves several clients); the arguments must come out unchanged and
    # the second instance must behave like one built from a fresh copy of them
    import copy
    import tempfile
    from nmea2000.consts import PhysicalQuantities as PQ
    from .. import fastpacket as fp
    tmpd = tempfile.mkdtemp(dir=str(workdir(PROP + "-ctor")))
    family = [dict(exclude_pgns=[60928, 127250]), dict(exclude_pgns=["isoAddressClaim", 130306]), dict(exclude_pgns=[60928]),
              dict(exclude_pgns=[127250, 130306]), dict(include_pgns=[60928, 127250]), dict(include_pgns=["isoAddressClaim"]),
              dict(include_pgns=[127250]), dict(exclude_pgns=[127250], exclude_manufacturer_code=["Garmin"]),
              dict(include_manufacturer_code=["BEP Marine"]), dict(dump_pgns=[60928, "windData"], dump_to_file=tmpd + "/d.jsonl"),
              dict(preferred_units={PQ.ANGLE: "deg"}), dict(build_network_map=True, exclude_pgns=[60928])]
    hist = [fp.ebyte_packet(60928, 11, 255, 6, dr.name_payload(1, 1)), fp.ebyte_packet(127250, 11, 255, 2, bytes([1, 0x10, 0x20, 0, 0, 0, 0, 0xFC])),
            fp.ebyte_packet(130306, 11, 255, 2, bytes([2, 0x11, 0x01, 0x20, 0x03, 0xFA, 0xFF, 0xFF])),
            fp.ebyte_packet(60928, 12, 255, 6, dr.name_payload(2, 2)), fp.ebyte_packet(127250, 12, 255, 2, bytes([3, 0x12, 0x20, 0, 0, 0, 0, 0xFC])),
            fp.ebyte_packet(60928, 11, 255, 6, dr.name_payload(2, 1)), fp.ebyte_packet(130306, 11, 255, 2, bytes([4, 0x13, 0x01, 0x20, 0x03, 0xFA, 0xFF, 0xFF]))]

    def outcome(dec):
        out = []
        for pk in hist:
            try:
                m = dec.decode_tcp(pk)
                out.append(None if m is None else (m.id, m.source, None if m.source_iso_name is None else m.source_iso_name.name,
                                                   [(f.id, repr(f.value), f.unit_of_measurement) for f in m.fields]))
            except Exception as e:         # noqa: BLE001
                out.append(("raised", type(e).__name__))
        dec.close()
        return out
    for cfg in family:
        ref = copy.deepcopy(cfg)
        first, second = NMEA2000Decoder(**cfg), NMEA2000Decoder(**cfg)
        what = "+".join(sorted(cfg))
        if cfg != ref:
            chk.violation(f"caller-argument-mutated/{what}", f"constructor arguments changed from {ref} to {cfg}")
        o1, o2 = outcome(first), outcome(second)
        fresh = outcome(NMEA2000Decoder(**copy.deepcopy(ref)))
        if o2 != fresh or o1 != fresh:
            k = next(i for i, (x, y, z) in enumerate(zip(o1, o2, fresh)) if x != z or y != z)
            chk.violation(f"instance-depends-on-earlier-instance/{what}",
                          f"decoders built from the same arguments {ref} disagree with one built from a fresh copy at step {k + 1}: "
                          f"first {o1[k] and o1[k][:2]}, second {o2[k] and o2[k][:2]}, fresh {fresh[k] and fresh[k][:2]}")
    chk.add(constructor_argument_families=len(family))
    # neighbours whose preferences name the SAME quantities with OTHER units (what a process-wide memo keyed too coarsely would
    # mix up): what a decoder returns next to, after or before such a neighbour equals what it returns alone in a fresh
    # process (one process per preference map computes the reference)
    import subprocess
    import sys
    from concurrent.futures import ThreadPoolExecutor
    from ..common import REPO
    prefs = [{"TEMPERATURE": "c"}, {"TEMPERATURE": "f"}, {"PRESSURE": "bar"}, {"PRESSURE": "psi"}, {"ANGLE": "deg"}, {"ANGLE": "rad"},
             {"SPEED": "kts"}, {"SPEED": "m/s"}, {"ANGLE": "deg", "TEMPERATURE": "f", "SPEED": "kts"},
             {"ANGLE": "rad", "TEMPERATURE": "c", "SPEED": "m/s"}, {"ANGLE": "deg", "TEMPERATURE": "c", "SPEED": "kts"}]
    probes = [fp.ebyte_packet(127250, 11, 255, 2, bytes([1, 0x10, 0x20, 0, 0, 0, 0, 0xFC])),
              fp.ebyte_packet(130306, 11, 255, 2, bytes([2, 0x11, 0x01, 0x20, 0x03, 0xFA, 0xFF, 0xFF])),
              fp.ebyte_packet(130312, 11, 255, 5, bytes([3, 1, 1, 0x50, 0x73, 0x60, 0x74, 0xFF])),
              fp.ebyte_packet(130314, 11, 255, 5, bytes([4, 1, 0, 0x10, 0x27, 0x0F, 0x00, 0xFF]))]
    helper = ("import sys, json; sys.path.insert(0, %r)\n"
              "from nmea2000.decoder import NMEA2000Decoder\nfrom nmea2000.consts import PhysicalQuantities as PQ\n"
              "pr, probes = json.load(sys.stdin)\nd = NMEA2000Decoder(preferred_units={PQ[k]: v for k, v in pr.items()})\n"
              "out = []\n"
              "for p in probes:\n    m = d.decode_tcp(bytes.fromhex(p))\n"
              "    out.append(None if m is None else [[f.id, repr(f.value), f.unit_of_measurement] for f in m.fields])\n"
              "print(json.dumps(out))\n") % str(REPO)

    def alone(pr):
        r = subprocess.run([sys.executable, "-c", helper], input=json.dumps([pr, [x.hex() for x in probes]]), capture_output=True,
                           text=True, timeout=120, env=dict(__import__("os").environ, PYTHONDONTWRITEBYTECODE="1"))
        return json.loads(r.stdout) if r.returncode == 0 else ("helper failed", r.stderr[-300:])

    def here(dec):
        out = []
        for pk in probes:
            m = dec.decode_tcp(pk)
            out.append(None if m is None else [[f.id, repr(f.value), f.unit_of_measurement] for f in m.fields])
        return out
    with ThreadPoolExecutor(len(prefs)) as ex:
        refs = list(ex.map(alone, prefs))
    chk.gate(all(isinstance(r, list) and all(x is not None for x in r) for r in refs), f"fresh-process references incomplete: {refs[:1]}")
    chk.gate(len({json.dumps(r) for r in refs if isinstance(r, list)}) >= len(prefs) - 3, "preference maps do not change what the probes decode to")
    mk = lambda pr: NMEA2000Decoder(preferred_units={PQ[k]: v for k, v in pr.items()})   # noqa: E731
    pairs = 0
    for order in ("ascending", "descending", "alive-together"):
        seq = list(enumerate(prefs)) if order != "descending" else list(enumerate(prefs))[::-1]
        decs = [(i, mk(pr)) for i, pr in seq] if order == "alive-together" else None
        for n, (i, pr) in enumerate(seq):
            got = here(decs[n][1] if decs else mk(pr))
            pairs += 1
            if isinstance(refs[i], list) and got != refs[i]:
                k = next(j for j, (x, y) in enumerate(zip(got, refs[i])) if x != y)
                diff = next(((a, b) for a, b in zip(got[k] or [], refs[i][k] or []) if a != b), (got[k], refs[i][k]))
                chk.violation(f"instance-depends-on-neighbour-preferences/{'+'.join(sorted(pr))}",
                              f"decoder with preferences {pr} ({order}, after decoders with other units for the same quantities) returns "
                              f"{diff[0]} where the same decoder alone in a fresh process returns {diff[1]}", {"preferences": pr, "order": order})
    chk.add(neighbour_preference_observations=pairs)
    bads = sum(1 for t in traces for e in t["evs"] if e["in"]["k"] == "bad")
    trunc = sum(1 for t in traces for e in t["evs"] if e["in"]["k"] == "frame" and not e["in"]["chunk"])
    others = sum(1 for t in traces for e in t["evs"] if e["who"] == "G")
    chk.gate(bads >= len(traces) // 20 and trunc > len(traces) // 4 and others > len(traces) // 2,
             f"too few disturbing inputs: bad={bads} truncated={trunc} other-instance={others}")
    chk.add(bad_inputs=bads, truncated_fast_frames=trunc, other_instance_steps=others, histories_replayed_twice=len(again))
    chk.assumptions += ["the third decoder instance is fed between the steps of the observed pair; encoder instances are created "
                        "for every observation (re-encoding of returned messages)"]


def run(tier: str, seed: int) -> int:
    chk = Check(PROP, tier, seed, LEVEL)
    c10.model(chk, tier, PROP)
    bind(chk, tier, seed)
    return chk.finish()


@contextlib.contextmanager
def mutant_class_level_buffers():
    from nmea2000.decoder import NMEA2000Decoder as D
    orig = D.__init__
    shared: dict = {}

    def bad(self, *a, **k):
        orig(self, *a, **k)
        self.data = shared                                   # reassembly buffers shared by all instances
    D.__init__ = bad
    try:
        yield
    finally:
        D.__init__ = orig


@contextlib.contextmanager
def mutant_exception_leaves_half_update():
    from nmea2000.decoder import NMEA2000Decoder as D
    orig = D._decode_fast_message

    def bad(self, pgn, priority, src, dest, timestamp, can_data, *a, **k):
        key = f"{pgn}_{src}_{dest}"
        old = self.data.get(key)
        keep = dict(old.frames) if old is not None and old.bytes_stored == 0 and (can_data[-1] & 31) == 0 else None
        r = orig(self, pgn, priority, src, dest, timestamp, can_data, *a, **k)
        if keep and key in self.data:
            for fc, ch in keep.items():                      # empty frames of an abandoned message survive the restart
                self.data[key].frames.setdefault(fc, ch)
        return r
    D._decode_fast_message = bad
    try:
        yield
    finally:
        D._decode_fast_message = orig


MUTANTS = {"reassembly buffers shared between instances": mutant_class_level_buffers,
           "empty frames of an abandoned message survive the restart": mutant_exception_leaves_half_update}
