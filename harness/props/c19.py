"""C19 — send() writes the encoder's packets contiguously; bad messages are harmless.

B1  MC_Send: 3 concurrent send() calls of 1- and 3-packet messages and unsendable messages x every
    pattern of drain() suspending or returning at once x a failing write or drain at any packet, with
    the send lock: Contiguous (block structure of the wire), Harmless, WriteFault, NoFaultNoChange,
    LockFree.  (MC_Send_nolock.cfg - the code as found - yields the interleaving counterexample.)
B3  the real EByte, Yacht Devices and Waveshare clients on the virtual-time loop with a fake writer:
    sets of concurrent send() tasks (single- and multi-frame messages, started together or one loop
    step apart) x drain patterns (never / always / alternating / enumerated masks) x a write or drain
    failure at each packet followed by a reconnection and further sends x messages that cannot be
    sent (missing field, out-of-range value, unknown PGN; any message on the Actisense client);
    a mirror encoder in the same counter state gives the packets each call must produce; every
    session's record (tokens on the link, failed calls, notifications, connection attempts) is
    judged by TLC (Trace_Send).
"""
from __future__ import annotations

import contextlib
import copy
import json
import random

from .. import clientfaults as cf
from .. import corpus
from .. import vloop
from ..common import Check, workdir
from ..tlc import run_tlc, run_trace_tlc

LEVEL = "model_checking"


def model(chk: Check, tier: str):
    r = run_tlc("MC_Send", "MC_Send.cfg", name="MC_Send", timeout=1800)
    for inv in r.violated:
        chk.violation(f"spec/{inv}", f"TLC: {inv} violated in MC_Send", {"tlc": r.error_text(60)})
    chk.gate(r.distinct > 2000, f"MC_Send explored only {r.distinct} states")
    r2 = run_tlc("MC_Send", "MC_Send_nolock.cfg", name="MC_Send_nolock", timeout=600)
    chk.gate("Contiguous" in r2.violated, "the model without the send lock does not show the interleaving (vacuous model)")
    chk.add(states=r.distinct, transitions=r.generated)


def messages():
    from nmea2000.decoder import NMEA2000Decoder
    dec = NMEA2000Decoder()
    single = dec.decode_basic_string(corpus.basic_string(127250, bytes([7, 0x10, 0x20, 0, 0, 0, 0, 0xFC]), src=5), already_combined=True)
    single2 = dec.decode_basic_string(corpus.basic_string(127250, bytes([9, 0x11, 0x21, 0, 0, 0, 0, 0xFC]), src=6), already_combined=True)
    from ..gen_db import build
    d = next(x for x in build()["defs"] if x["id"] == "gnssPositionData")
    payload = bytearray(corpus.build_payload(d, {}, random.Random(5)))
    multi = dec.decode_basic_string(corpus.basic_string(129029, bytes(payload), src=7), already_combined=True)
    if multi is None:
        raise RuntimeError("no multi-frame sample message")
    multi2 = copy.deepcopy(multi)
    multi2.source = 8
    missing = copy.deepcopy(single)
    del missing.fields[1]
    out_of_range = copy.deepcopy(single)
    out_of_range.get_field_by_id("heading").value = 1e9
    unknown = copy.deepcopy(single)
    unknown.PGN = 123456
    # refused by the encoder's own header checks rather than by a per-PGN encoder
    prio8, src256, wide = copy.deepcopy(single), copy.deepcopy(single), copy.deepcopy(multi)
    prio8.priority, src256.source, wide.PGN = 8, 256, 0x40000
    # a PGN number with several definitions (65280 Furuno heave): a valid message, and one whose value is out of range
    mv = dec.decode_basic_string(corpus.basic_string(65280, bytes([0x3F, 0x9F, 0x10, 0, 0, 0, 0xFF, 0xFF]), src=9), already_combined=True)
    mv2 = copy.deepcopy(mv)
    mv2.get_field_by_id("heave").value = 0.25
    mv_bad = copy.deepcopy(mv)
    mv_bad.get_field_by_id("heave").value = 1e9
    # the same message again with only the RAW value of a lookup field changed (the text stays: what a cache keyed on the
    # displayed values would take for a repetition), and a fast-packet message short enough for one frame (its sequence counter
    # still moves on with every transmission)
    single_raw = copy.deepcopy(single)
    fr = single_raw.get_field_by_id("reference")
    fr.raw_value = 1 if fr.raw_value != 1 else 0
    dsf = next(x for x in build()["defs"] if x["id"] == "fusionSetMute")
    shortfast = dec.decode_basic_string(corpus.basic_string(126720, corpus.build_payload(dsf, {}, None), src=4), already_combined=True)
    if shortfast is None or shortfast.id != "fusionSetMute":
        raise RuntimeError("no short fast-packet sample message")
    from nmea2000.message import NMEA2000Message
    seeds = []
    for want in (60928, 126996, 126998):
        sm = NMEA2000Message.from_json('{"PGN":59904,"id":"isoRequest","description":"ISO Request","fields":[{"id":"pgn","name":"PGN","description":null,"unit_of_measurement":null,"value":60928,"raw_value":60928,"physical_quantities":null,"type":[13],"part_of_primary_key":false}],"source":0,"destination":255,"priority":6,"timestamp":"2012-06-17T15:02:11","source_iso_name":null,"hash":null}')
        sm.fields[0].value = want
        seeds.append(sm)
    return {"seed1": seeds[0], "seed2": seeds[1], "seed3": seeds[2], "variant": mv, "variant2": mv2, "bad-variant": mv_bad,
            "single": single, "single2": single2, "single-raw": single_raw, "shortfast": shortfast, "multi": multi, "multi2": multi2,
            "bad-missing": missing, "bad-range": out_of_range, "bad-pgn": unknown,
            "bad-priority": prio8, "bad-source": src256, "bad-pgn-wide": wide}


def mirror(kind: str, msgs: list):
    from nmea2000.encoder import NMEA2000Encoder
    enc = NMEA2000Encoder()
    out = []
    for m in msgs:
        try:
            out.append({"ebyte": enc.encode_ebyte, "yd": enc.encode_yacht_devices, "waveshare": enc.encode_usb}[kind](m))
        except Exception:                  # noqa: BLE001
            out.append([])
    return out


class SendPlan(cf.Plan):
    def __init__(self, drain_mask=(), fail_write=None, fail_drain=None):
        super().__init__()
        self.drain_mask, self.fail_write, self.fail_drain = drain_mask, fail_write, fail_drain
        self.data_writes = 0          # writes of message packets over the whole session
        self.skip = 0

    def _is_data(self, conn, nth):
        return True

    def write_fails(self, conn, nth):
        if self.skip_config and nth == 1:
            return False
        self.data_writes += 1
        return self.fail_write is not None and self.data_writes == self.fail_write

    def drain_delay(self, conn, nth):
        if self.skip_config and nth == 1:
            return None
        k = self.data_writes
        if self.drain_mask == "all":
            return 0.05
        if self.drain_mask == "alt":
            return 0.05 if k % 2 else None
        return 0.05 if (k - 1) < len(self.drain_mask) and self.drain_mask[k - 1] else None

    def drain_fails(self, conn, nth):
        if self.skip_config and nth == 1:
            return False
        return self.fail_drain is not None and self.data_writes == self.fail_drain


def session(kind: str, names: list[str], stagger: int, plan: SendPlan, after: list[str], M: dict, eof_at: float | None = None,
            timed: tuple = (), connect: bool = True, client_kwargs: dict | None = None):
    plan.skip_config = kind == "waveshare"
    sess = vloop.Session(plan)
    order: list[str] = []

    def scenario(s: vloop.Session):
        if connect:
            s.user("connect", s.client.connect)

        def start(name):
            order.append(name)
            s.user(f"send{len(order)}", lambda m=M[name]: s.client.send(copy.deepcopy(m)))

        def launch():
            for j, nme in enumerate(names):
                if stagger == 0 or j == 0:
                    start(nme)
                else:
                    s.at_step(s.loop.step + stagger * j, lambda nme=nme: start(nme))
        s.at_time(1.0, launch)
        for j, nme in enumerate(after):
            s.at_time(8.0 + j, lambda nme=nme: start(nme))
        for t, nme in timed:
            s.at_time(t, lambda nme=nme: start(nme))
        if eof_at is not None:
            s.at_time(eof_at, lambda: s.eof(1))
    raw = sess.run(vloop.make_client_factory(kind, **(client_kwargs or {})), scenario, until=20.0)
    if client_kwargs and client_kwargs.get("build_network_map") and kind != "actisense":
        # a client built with network mapping on sends three requests of its own after connecting (2, 4 and 6 s later): they are
        # messages like any other - sent whole, never inside another message
        order += ["seed1", "seed2", "seed3"]
    sent = [M[nm] for nm in order]
    P = mirror(kind, sent) if kind != "actisense" else [[] for _ in sent]
    used = [[False] * len(p) for p in P]
    wire = []
    for c in sorted(sess.wire):
        for n_w, w in enumerate(sess.wire[c]):
            if kind == "waveshare" and n_w == 0 and len(w) == 20 and w[2] == 0x02:
                continue                         # the serial configuration packet of this connection
            tok = [-1, 0]
            for i, p in enumerate(P):
                for k, b in enumerate(p):
                    if not used[i][k] and b == w:
                        used[i][k] = True
                        tok = [i + 1, k + 1]
                        break
                if tok[0] != -1:
                    break
            wire.append(tok)
    # which call was running when a write / drain raised: the call whose Ret follows the WriteError
    failed = []
    for idx, e in enumerate(raw):
        if e["e"] == "WriteError":
            # attribute to the send call with the most recent packet on the wire, else the first unfinished
            done = [i + 1 for i, p in enumerate(P) if p and any(used[i])]
            cand = [i + 1 for i, p in enumerate(P) if p and not all(used[i])]
            failed.append(cand[0] if cand else (done[-1] if done else 1))
    # packets written to a link after a newer connection had been adopted never reach the gateway
    accepted = [(e["t"], e["k"]) for e in raw if e["e"] == "OpenResult" and e["r"] == "accept"]
    stale = sum(1 for e in raw if e["e"] == "Write" and not (kind == "waveshare" and len(e.get("data", [])) == 20 and e["data"][2] == 0x02)
                and any(k > e["conn"] and t < e["t"] for t, k in accepted))
    statuses = [e["s"] for e in raw if e["e"] == "Status"][1 if connect else 0:]      # (after the initial CONNECTED, if any)
    opens = sum(1 for e in raw if e["e"] == "Open")
    bad = [i + 1 for i, nm in enumerate(order) if nm.startswith("bad") or kind == "actisense"]
    injected = plan.fail_write is not None or plan.fail_drain is not None or eof_at is not None
    return {"n": [len(p) for p in P], "wire": wire, "failed": sorted(set(failed)), "statuses": statuses, "opens": opens, "stale": stale,
            "bad": bad, "clean": not injected, "complete": not injected or eof_at is not None, "allowed": 1 if connect else 0}, order


def bind(chk: Check, tier: str, seed: int):
    wd = workdir("C19")
    rng = random.Random(seed)
    M = messages()
    recs, meta = [], []
    combos = [["multi", "multi2"], ["multi", "single"], ["single", "multi", "single2"], ["multi", "multi2", "single"], ["single", "single2"]]
    masks = ["none", "all", "alt"] + [tuple(rng.random() < 0.5 for _ in range(16)) for _ in range({"quick": 5, "thorough": 200, "selftest": 2}[tier])]
    for kind in ("ebyte", "yd", "waveshare"):
        for names in combos:
            for mask in masks:
                for stagger in ((0, 1, 2) if tier != "thorough" else (0, 1, 2, 3, 5, 8)):
                    plan = SendPlan(drain_mask=() if mask == "none" else mask)
                    r, order = session(kind, names, stagger, plan, [], M)
                    recs.append(r)
                    meta.append((kind, "+".join(names), f"drain={mask if isinstance(mask, str) else 'mask'}", f"stagger{stagger}", "no-fault"))
        # near-repetitions one after the other on one client: what goes out is what the encoder produces for THIS call
        for names in (["single", "single-raw"], ["single-raw", "single", "single-raw"], ["shortfast", "shortfast"],
                      ["shortfast", "shortfast", "multi", "shortfast"], ["single", "shortfast", "single-raw", "shortfast"]):
            for stagger in (1, 3):
                r, order = session(kind, names, stagger, SendPlan(), [], M)
                recs.append(r)
                meta.append((kind, "+".join(names), "drain=none", f"stagger{stagger}", "near-repetition"))
        # a failure at each packet of a multi-frame message (write raises / drain raises), then reconnect and more sends
        total = len(mirror(kind, [M["multi"]])[0])
        for j in range(1, total + 2):
            for how in ("write", "drain"):
                for mask in ("none", "all"):
                    plan = SendPlan(drain_mask=() if mask == "none" else mask, **{f"fail_{how}": j})
                    r, order = session(kind, ["multi", "single"], 0, plan, ["single2", "multi2"], M)
                    recs.append(r)
                    meta.append((kind, "multi+single", f"drain={mask}", f"{how}-fails@{j}", "fault"))
        # the link is replaced (end of stream seen by the receive loop) while a multi-frame send is stalled between two
        # of its frames by back-pressure; another send starts on the new link: still one message at a time
        for eof_at in (1.07, 1.12, 1.22):
            for t2 in (eof_at - 0.03, eof_at + 0.03, eof_at + 0.08, eof_at + 0.2):      # (before: queued on the lock across the replacement)
                for second in ("multi2", "single"):
                    plan = SendPlan(drain_mask="all")
                    r, order = session(kind, ["multi"], 0, plan, [], M, eof_at=eof_at, timed=((t2, second),))
                    recs.append(r)
                    meta.append((kind, f"multi+{second}", "drain=all", f"eof@{eof_at}+send@{t2:.2f}", "link-replaced"))
        # messages that cannot be sent
        for badname in ("bad-missing", "bad-range", "bad-pgn", "bad-priority", "bad-source", "bad-pgn-wide"):
            for names in ([badname], ["single", badname, "multi"], [badname, badname]):
                plan = SendPlan(drain_mask="alt")
                r, order = session(kind, names, 1, plan, [], M)
                recs.append(r)
                meta.append((kind, "+".join(names), "drain=alt", "stagger1", "unsendable"))
            pass
        # a refused message of a PGN number that has several definitions, then valid messages of that PGN: they go out as ever
        for names in (["variant", "bad-variant", "variant2", "variant"], ["bad-variant", "variant", "multi", "variant2"]):
            r, order = session(kind, names, 2, SendPlan(), [], M)
            recs.append(r)
            meta.append((kind, "+".join(names), "drain=none", "stagger2", "unsendable"))
        # a client built with network mapping on: its own requests fall due while a multi-frame message is stalled between frames
        for t0 in (1.75, 1.9, 3.8, 5.85):
            for names in (["multi"], ["multi", "multi2"]):
                plan = SendPlan(drain_mask="all")
                r, order = session(kind, [], 0, plan, [], M, timed=tuple((t0 + 0.01 * j, nm) for j, nm in enumerate(names)),
                                   client_kwargs={"build_network_map": True})
                recs.append(r)
                meta.append((kind, "+".join(names), "drain=all", f"network-map@{t0}", "no-fault"))
        for badname in [k for k in M if k.startswith("bad")]:
            # a client that was never connected: an unsendable message leaves it exactly so (no connection attempt, no notification)
            for names in ([badname], [badname, badname]):
                r, order = session(kind, names, 1, SendPlan(), [], M, connect=False)
                recs.append(r)
                meta.append((kind, "+".join(names), "never-connected", "stagger1", "unsendable"))
            # the unsendable message arrives while a multi-frame message is stalled between two of its frames, and another
            # sender follows: the refusal touches nothing, the lock included
            for names in (["multi", badname, "multi2"], ["multi", badname, "single"], ["multi", "multi2", badname, "single"]):
                for stagger in (1, 2):
                    plan = SendPlan(drain_mask="all")
                    r, order = session(kind, names, stagger, plan, [], M)
                    recs.append(r)
                    meta.append((kind, "+".join(names), "drain=all", f"stagger{stagger}", "unsendable"))
    for names in (["single"], ["multi", "single"]):
        plan = SendPlan()
        r, order = session("actisense", names, 0, plan, [], M)
        recs.append(r)
        meta.append(("actisense", "+".join(names), "drain=none", "stagger0", "unsendable"))
        r, order = session("actisense", names, 0, SendPlan(), [], M, connect=False)
        recs.append(r)
        meta.append(("actisense", "+".join(names), "never-connected", "stagger0", "unsendable"))
    inp, outp = wd / "c19.json", wd / "c19-verdicts.json"
    inp.write_text(json.dumps(recs))
    _, v = run_trace_tlc("Trace_Send", "Trace_Send.cfg", inp, outp, name="Trace_Send")
    chk.gate(v["n"] == len(recs), "Trace_Send did not judge every session")
    for b in v["bad"]:
        kind, names, drain, how, cls = meta[b["k"] - 1]
        r = recs[b["k"] - 1]
        chk.violation(f"{b['c']}/{kind}/{cls}/{drain if cls == 'no-fault' else how.split('@')[0]}",
                      f"{kind} client, sends {names}, {drain}, {how}: {b['c']}; wire {r['wire'][:24]} n={r['n']} failed={r['failed']} "
                      f"statuses={r['statuses']} opens={r['opens']}", {"session": meta[b["k"] - 1], "record": r})
    nfail = sum(1 for r in recs if r["failed"])
    chk.gate(nfail >= (6 if tier == "selftest" else 20), f"only {nfail} sessions had a failing write")
    chk.gate(sum(len(r["wire"]) for r in recs) > 5 * len(recs) // 2, "hardly anything was written: vacuous")
    chk.add(traces_validated_against_impl=len(recs), sessions_with_write_failure=nfail,
            packets_on_the_wire=sum(len(r["wire"]) for r in recs))
    k = next(i for i, m in enumerate(meta) if m[4] == "fault" and m[3].startswith("write-fails@3"))
    chk.sample({"session": meta[k], "record": recs[k]})
    chk.assumptions += ["a mirror encoder in the same counter state, fed the messages in call order, defines the packets of each call",
                        "written packets are mapped to (call, index) tokens by content; the serial configuration packet is skipped"]


def run(tier: str, seed: int) -> int:
    chk = Check("C19", tier, seed, LEVEL)
    model(chk, tier)
    bind(chk, tier, seed)
    return chk.finish()


@contextlib.contextmanager
def mutant_no_send_lock():
    import nmea2000.ioclient as I
    orig = I.AsyncIOClient.send

    async def bad(self, m):
        try:
            msgs = self._encode_impl(m)
            for msg in msgs:
                self.writer.write(msg)
                await self.writer.drain()
        except (ValueError, NotImplementedError):
            pass
        except Exception:
            if self._state != I.State.CLOSED:
                await self._update_state(I.State.DISCONNECTED)
                I.asyncio.create_task(self.connect())
    I.AsyncIOClient.send = bad
    try:
        yield
    finally:
        I.AsyncIOClient.send = orig


@contextlib.contextmanager
def mutant_valueerror_is_link_loss():
    import nmea2000.ioclient as I
    orig = I.AsyncIOClient.send

    async def bad(self, m):
        try:
            self._encode_impl(m)
        except ValueError:
            if self._state != I.State.CLOSED:
                await self._update_state(I.State.DISCONNECTED)
                I.asyncio.create_task(self.connect())
            return
        except Exception:
            pass
        return await orig(self, m)
    I.AsyncIOClient.send = bad
    try:
        yield
    finally:
        I.AsyncIOClient.send = orig


MUTANTS = {"send lock removed": mutant_no_send_lock, "ValueError treated as link loss": mutant_valueerror_is_link_loss}
