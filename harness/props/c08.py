"""C08 — proprietary PGN definitions are selected exactly by their match fields.

B1  MC_Select: N2KCodec!Select on the real database (Carries, FillIndependent, FirstInOrder for every
    definition of the 25 multi-definition PGNs; shadowed definitions reported as database facts).
B3  for every definition of a multi-definition PGN: products of {own match value, each sibling's
    value at that position, a value matching none} per match field x several fills of the remaining
    bits, through the real dispatcher (decode_basic_string(already_combined=True)); the id of the
    returned message (or the generated decoder that raised) is judged by TLC against Select.
"""
from __future__ import annotations

import contextlib
import itertools
import random
import re
import traceback

from .. import corpus
from ..codec import load_db, validate
from ..common import Check, workdir
from ..tlc import run_tlc

LEVEL = "translation_validation"


def vectors(db, rng: random.Random, cap: int, fills: int):
    by_pgn: dict[int, list] = {}
    for d in db["defs"]:
        by_pgn.setdefault(d["pgn"], []).append(d)
    for pgn, ds in by_pgn.items():
        if len(ds) < 2:
            continue
        # all match positions used by any definition of this PGN: (off, len) -> set of values
        pos: dict[tuple, set] = {}
        for d in ds:
            for f in d["fields"]:
                if f["match"] != -1 and f["off"] >= 0:
                    pos.setdefault((f["off"], f["len"]), set()).add(f["match"])
        for d in ds:
            own = {(f["off"], f["len"]): f["match"] for f in d["fields"] if f["match"] != -1 and f["off"] >= 0}
            choices = []
            keys = sorted(pos)
            for k in keys:
                vals = set(pos[k])
                none = next(v for v in range(1 << k[1]) if v not in vals)
                opts = ([own[k]] if k in own else []) + sorted(vals - {own.get(k)})[:4] + [none]
                choices.append(opts)
            combos = list(itertools.islice(itertools.product(*choices), 4000))
            rng.shuffle(combos)
            combos = [tuple(own.get(k, choices[i][-1]) for i, k in enumerate(keys))] + combos[:cap]   # own values first
            for combo in combos:
                for fill in range(fills):
                    if fill == 0:
                        base = int.from_bytes(corpus.build_payload(d, {}), "little")
                    elif fill == 1:
                        base = 0
                    else:
                        base = rng.getrandbits(8 * 12)
                    n = max(d["len"] if d["len"] > 0 else 8, 8, max(((o + l + 7) // 8 for o, l in keys), default=0))
                    # positions of different siblings may overlap: the aimed definition's own positions win
                    order = sorted(zip(keys, combo), key=lambda kv: kv[0] in own)
                    for (o, l), v in order:
                        base &= ~(((1 << l) - 1) << o)
                        base |= v << o
                    base &= (1 << (8 * n)) - 1
                    yield d, base.to_bytes(n, "little"), fill


_FN = re.compile(r"decode_pgn_(\d+)_(\w+)")


def observe(dec, pgn: int, payload: bytes) -> dict:
    s = corpus.basic_string(pgn, payload)
    try:
        msg = dec.decode_basic_string(s, already_combined=True)
    except Exception as e:                      # noqa: BLE001
        ident = ""
        for fr in traceback.extract_tb(e.__traceback__):
            m = _FN.fullmatch(fr.name)
            if m:
                ident = m.group(2)
        return {"pgn": pgn, "p": list(payload), "ret": "err", "id": ident}
    if msg is None:
        return {"pgn": pgn, "p": list(payload), "ret": "none", "id": ""}
    return {"pgn": pgn, "p": list(payload), "ret": "msg", "id": msg.id}


_TWIN: list = []


def _twin():
    if not _TWIN:
        from nmea2000.decoder import NMEA2000Decoder
        _TWIN.append(NMEA2000Decoder())
    return _TWIN[0]


def observe_frames(dec, d: dict, payload: bytes, seq: list) -> dict | None:
    from .. import fastpacket as fp
    pgn = d["pgn"]
    if d["fast"] == "single":
        if len(payload) > 8:
            return None
        packets = [fp.ebyte_packet(pgn, 9, 255, 3, bytes(payload))]
    elif d["fast"] == "fast" and len(payload) <= 223:
        q = seq[0]
        seq[0] = (q + 1) % 8
        n, packets, i, pos = len(payload), [], 0, 0
        while True:
            cap_ = 6 if i == 0 else 7
            packets.append(fp.ebyte_packet(pgn, 9, 255, 3, fp.can_data(q, i, n, list(payload[pos:pos + cap_]))))
            pos += cap_
            i += 1
            if pos >= n:
                break
    else:
        return None
    msg = None
    try:
        for pk in packets:
            # a second decoder instance of the same process (another gateway's) sees the same bus: every frame reaches it first
            try:
                _twin().decode_tcp(pk)
            except Exception:                   # noqa: BLE001
                pass
            msg = dec.decode_tcp(pk)
    except Exception as e:                      # noqa: BLE001
        ident = ""
        for fr in traceback.extract_tb(e.__traceback__):
            m = _FN.fullmatch(fr.name)
            if m:
                ident = m.group(2)
        return {"pgn": pgn, "p": list(payload), "ret": "err", "id": ident}
    if msg is None:
        return {"pgn": pgn, "p": list(payload), "ret": "none", "id": ""}
    return {"pgn": pgn, "p": list(payload), "ret": "msg", "id": msg.id}


def model(chk: Check, tier: str, wd):
    r = run_tlc("MC_Select", "MC_Select.cfg", env={"DB_FILE": str(wd / "db.json")}, name="MC_Select", timeout=1800)
    for inv in r.violated:
        chk.violation(f"spec/{inv}", f"TLC: {inv} violated in MC_Select", {"tlc": r.error_text()})
    chk.gate(r.distinct >= 300, f"MC_Select explored only {r.distinct} states")
    shadowed = sorted(set(re.findall(r'<<"shadowed", "(\w+)">>', r.out)))
    for s in shadowed:
        chk.drift.append(f"database: definition {s} is shadowed by an earlier sibling (its own match values select another definition)")
    chk.add(states=r.distinct, transitions=r.generated, shadowed_definitions=shadowed)
    return set(shadowed)


def bind(chk: Check, tier: str, seed: int, shadowed: set | None = None):
    wd = workdir("C08") if shadowed is None else workdir("C08b")
    db, _ = load_db(wd)
    from nmea2000.decoder import NMEA2000Decoder
    dec = NMEA2000Decoder()
    rng = random.Random(seed)
    cap, fills = {"quick": (12, 3), "thorough": (150, 6), "selftest": (6, 2)}[tier]
    recs, meta = [], []
    for d, payload, fill in vectors(db, rng, cap, fills):
        recs.append(observe(dec, d["pgn"], payload))
        meta.append(d["id"])
    # the same vectors once more through the frame-level path of one long-lived decoder (EByte packets; fast-packet
    # PGNs frame by frame under a running sequence counter): the selection must not depend on what the decoder has
    # seen before - payloads that match no definition included
    n_direct = len(recs)
    decf = NMEA2000Decoder()
    seq = [0]
    for (d, payload, fill), direct in zip(vectors(db, random.Random(seed), cap, fills), list(recs)):
        if fill > 1:
            continue
        o = observe_frames(decf, d, payload, seq)
        if o is not None:
            recs.append(o)
            meta.append(d["id"])
    chk.add(frame_level_records=len(recs) - n_direct)
    # ... and through a decoder whose exclude list names every other definition of each multi-definition PGN by id: a payload
    # aimed at an excluded definition is filtered out after it was selected (ids are known only then); the payloads aimed at the
    # permitted definitions of that PGN number are selected as ever - under one and the same sequence counter for the frames
    # (the decoder resets a completed message whatever became of it)
    n_frames = len(recs)
    by_pgn: dict = {}
    for d in db["defs"]:
        by_pgn.setdefault(d["pgn"], []).append(d["id"])
    excluded = {i for ids in by_pgn.values() if len(ids) > 1 for i in ids[1::2]}
    decx = NMEA2000Decoder(exclude_pgns=sorted(excluded))
    qx = [3]
    for (d, payload, fill), direct in zip(vectors(db, random.Random(seed), cap, fills), list(recs[:n_direct])):
        if fill > 1 or len(by_pgn[d["pgn"]]) < 2:
            continue
        # (the sequence counter advances as a sender's does - except right after a message that was filtered out: the next one
        #  repeats its counter)
        o = observe_frames(decx, d, payload, [qx[0]])
        qx[0] = (qx[0] + 1) % 8
        if o is None:
            continue
        if direct.get("id") in excluded:                    # what the unfiltered decoder selects for this vector is excluded here
            if o["ret"] != "msg":
                if direct.get("ret") == "msg":
                    qx[0] = (qx[0] - 1) % 8
                continue                                    # filtered out, as asked
            o = dict(o, ret="err", id="")                   # an excluded definition came back: judged as a failure of this vector
        recs.append(o)
        meta.append(d["id"])
    chk.add(frame_level_records_filtered_decoder=len(recs) - n_frames)
    bad = validate("C08", recs, wd)
    selected = {r["id"] for r in recs if r["ret"] in ("msg", "err")}
    multi = {d["id"] for d in db["defs"] if sum(1 for x in db["defs"] if x["pgn"] == d["pgn"]) > 1}
    missing = multi - selected - (shadowed or set())
    chk.gate(tier == "selftest" or len(missing) <= len(multi) // 10,
             f"{len(missing)} selectable definitions were never selected: {sorted(missing)[:8]}")
    for i, vs in bad:
        for v in vs:
            want = db["defs"][v["f"] - 1]["id"] if v["f"] > 0 else "-"
            chk.violation(f"{v['c']}/{recs[i]['pgn']}/{want}",
                          f"PGN {recs[i]['pgn']} payload {bytes(recs[i]['p']).hex()} aimed at {meta[i]}: library "
                          f"{recs[i]['ret']} {recs[i]['id']!r}, Select says {want}",
                          {"record": recs[i], "aimed": meta[i], "select": want})
    chk.add(programs=len(multi), disagreements_checked=len(recs), records=len(recs),
            definitions_selected=len(selected & multi), never_selected=sorted(missing),
            traces_validated_against_impl=len(recs))
    chk.sample({"pgn": recs[0]["pgn"], "payload": bytes(recs[0]["p"]).hex(), "library": recs[0]["id"], "aimed": meta[0]})
    chk.sample({"pgn": recs[-1]["pgn"], "payload": bytes(recs[-1]["p"]).hex(), "library": recs[-1]["id"], "aimed": meta[-1]})
    chk.assumptions += ["when the selected decoder raises, the definition is read off the traceback's generated function name"]


def run(tier: str, seed: int) -> int:
    chk = Check("C08", tier, seed, LEVEL)
    wd = workdir("C08")
    load_db(wd)
    shadowed = model(chk, tier, wd)
    bind(chk, tier, seed, shadowed)
    return chk.finish()


@contextlib.contextmanager
def mutant_arm_constant():
    """one dispatcher arm's constant changed (126720: Airmar proprietary id 32 -> 33)"""
    import inspect
    import nmea2000.decoder as D
    import nmea2000.pgns as P
    src = inspect.getsource(P.decode_pgn_130816)
    m = re.search(r"\(\(\(data_raw >> 24\) & 0xFF\) == (\d+)\)", src)
    src2 = src.replace(m.group(0), m.group(0).replace(f"== {m.group(1)}", f"== {int(m.group(1)) + 100}"), 1)
    ns = dict(P.__dict__)
    exec(src2, ns)
    orig = D.__dict__["decode_pgn_130816"]
    D.__dict__["decode_pgn_130816"] = ns["decode_pgn_130816"]
    try:
        yield
    finally:
        D.__dict__["decode_pgn_130816"] = orig


@contextlib.contextmanager
def mutant_fallback_removed():
    import inspect
    import nmea2000.decoder as D
    import nmea2000.pgns as P
    src = inspect.getsource(P.decode_pgn_65280)
    lines = src.rstrip().split("\n")
    assert lines[-1].strip().startswith("return decode_pgn_65280_")
    lines[-1] = "    return None"
    ns = dict(P.__dict__)
    exec("\n".join(lines), ns)
    orig = D.__dict__["decode_pgn_65280"]
    D.__dict__["decode_pgn_65280"] = ns["decode_pgn_65280"]
    try:
        yield
    finally:
        D.__dict__["decode_pgn_65280"] = orig


MUTANTS = {"dispatcher arm constant changed": mutant_arm_constant, "fallback arm removed": mutant_fallback_removed}
