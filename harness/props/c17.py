"""C17 — the identity hash depends exactly on message kind and primary-key fields.

B1  MC_RecordLaws (thin by nature): KeyLaw - the oracle KeyBits agrees iff two payloads agree on every
    bit of every primary-key field (toy layouts, all payload pairs); shared with C18's ConvLaw/FrameLaw.
B3  every definition with positioned primary-key fields (and a sample of the others) is decoded in
    database order by ONE decoder process with network mapping on: per definition a group of
    observations - base payload; non-key bits changed; every key field changed alone; other source /
    destination / priority; unit preferences; a second decoder instance; a second process with another
    PYTHONHASHSEED; network mapping off - and TLC checks every pair of each group:
    equal hash <=> same definition id and equal key bits (KeyBits computed by the specification from
    the payload and the database's primary-key flags), hash present iff mapping is on.
"""
from __future__ import annotations

import contextlib
import json
import os
import random
import subprocess
import sys

from .. import corpus
from ..codec import load_db, validate
from ..common import REPO, SPEC, Check, workdir
from ..tlc import run_tlc

LEVEL = "model_checking"
CLAIM = "2020-01-01-00:00:00.000,6,60928,%d,255,8,e9,03,e0,e7,00,82,32,c0"


def model(chk: Check, tier: str, wd):
    (wd / "none.json").write_text("[]")
    r = run_tlc("MC_RecordLaws", "MC_RecordLaws.cfg", name="MC_RecordLaws", timeout=900,
                env={"DB_FILE": str(SPEC / "toy_db.json"), "IN_FILE": str(wd / "none.json"), "MODE": "C17", "OUT_FILE": str(wd / "x.json")})
    for inv in r.violated:
        chk.violation(f"spec/{inv}", f"TLC: {inv} violated in MC_RecordLaws", {"tlc": r.error_text(60)})
    chk.gate(r.distinct >= 2000, f"MC_RecordLaws explored only {r.distinct} states")
    chk.add(states=r.distinct, transitions=r.generated)


KEY_ALTERNATIVES = [1]        # other values tried per key field (more in the thorough tier)


def variants(d, rng: random.Random):
    """(tag, payload) of one group"""
    base_codes = {i: corpus.neutral_code(f, rng) for i, f in enumerate(d["fields"]) if f["off"] >= 0 and f["len"] >= 0}
    out = [("base", corpus.build_payload(d, base_codes))]
    nonkey = {i: c for i, c in base_codes.items()}
    for i, f in enumerate(d["fields"]):
        if i in nonkey and not f["pk"] and f["match"] == -1:
            nonkey[i] = corpus.neutral_code(f, rng)
    out.append(("nonkey", corpus.build_payload(d, nonkey)))
    for i, f in enumerate(d["fields"]):
        if f["pk"] and i in base_codes and f["match"] == -1:
            got = 0
            for _ in range(8 * KEY_ALTERNATIVES[0]):
                c = corpus.neutral_code(f, rng)
                if c != base_codes[i]:
                    out.append((f"key{i+1}", corpus.build_payload(d, {**base_codes, i: c})))
                    got += 1
                    if got >= KEY_ALTERNATIVES[0]:
                        break
    # a key field that is "not available" (all ones) is a key value like any other: it must neither be skipped nor
    # wipe the other key parts or the definition's id
    for i, f in enumerate(d["fields"]):
        if f["pk"] and i in base_codes and f["match"] == -1 and f["kind"] == "num" and f["len"] >= 2:
            na = (1 << f["len"]) - 1 if not f["twos"] or f["len"] < 4 else (1 << (f["len"] - 1)) - 1
            out.append((f"na{i+1}", corpus.build_payload(d, {**base_codes, i: na})))
            for j, g in enumerate(d["fields"]):
                if j != i and g["pk"] and j in base_codes and g["match"] == -1:
                    c = corpus.neutral_code(g, rng)
                    if c != base_codes[j]:
                        out.append((f"na{i+1}+key{j+1}", corpus.build_payload(d, {**base_codes, i: na, j: c})))
    # neighbouring key values far from zero (two vessels whose MMSI differ in the last digit, instances next to the top of the
    # range): a key rendered through a float or with a limited number of significant digits merges them
    for i, f in enumerate(d["fields"]):
        if f["pk"] and i in base_codes and f["match"] == -1 and f["kind"] in ("num", "int", "lookup") and f["len"] >= 8:
            top = ((1 << (f["len"] - 1)) if f["twos"] else (1 << f["len"])) - 5
            pairs = [(top, top - 1)]
            for need, v in ((24, 1234567), (32, 244670316), (40, (1 << 33) + 10), (56, (1 << 53) + 2)):
                if f["len"] >= need:
                    pairs.append((v, v + 1))
            for x, y in pairs:
                out.append((f"near{i+1}", corpus.build_payload(d, {**base_codes, i: x})))
                out.append((f"near{i+1}", corpus.build_payload(d, {**base_codes, i: y})))
    # a text key: ids that differ only in blanks at their ends, or in letter case, are different keys
    for i, f in enumerate(d["fields"]):
        if f["pk"] and f["kind"] == "strlau" and f["off"] >= 0:
            long_ = b"STATION-" + b"0123456789" * 6          # ids of 69..120 characters that differ only near their ends
            for txt in (b"KSFO", b"KSFO ", b" KSFO", b"KSFO\t", b"ksfo", b"", b" ", b"KSFX", long_ + b"A", long_ + b"B", long_,
                        long_ * 2 + b"1", long_ * 2 + b"2"):
                out.append((f"text{i+1}", corpus.build_payload(d, {**base_codes, i: txt}, rng)))
    # two key fields: pairs of key values whose decimal texts glue to the same string (1|11 and 11|1, 2|20 and 22|0):
    # a hash over a separator-less concatenation cannot tell them apart
    keys = [i for i, f in enumerate(d["fields"]) if f["pk"] and i in base_codes and f["match"] == -1 and f["len"] >= 5
            and f["kind"] in ("num", "lookup", "int")]
    for a, b in zip(keys, keys[1:]):
        for (x1, y1), (x2, y2) in (((1, 11), (11, 1)), ((2, 20), (22, 0)), ((1, 2), (12, 0))):
            out.append((f"glue{a+1}-{b+1}", corpus.build_payload(d, {**base_codes, a: x1, b: y1})))
            out.append((f"glue{a+1}-{b+1}", corpus.build_payload(d, {**base_codes, a: x2, b: y2})))
    return out


def decode_hash(dec, d, payload, src=7, dst=255, prio=3):
    try:
        m = dec.decode_basic_string(corpus.basic_string(d["pgn"], payload, src=src, dst=dst, prio=prio), already_combined=True)
    except Exception:                      # noqa: BLE001
        return None
    if m is None:
        return None
    return {"p": list(payload), "hash": m.hash or "", "id": m.id, "netmap": True}


HELPER = r'''
import sys, json, logging
logging.disable(logging.CRITICAL)
sys.path.insert(0, %r)
from nmea2000.decoder import NMEA2000Decoder
dec = NMEA2000Decoder(build_network_map=True)
for s in (7, 9):
    dec.decode_basic_string(%r %% s)
out = []
for line in json.load(sys.stdin):
    try:
        m = dec.decode_basic_string(line, already_combined=True)
        out.append(None if m is None else [m.id, m.hash or ""])
    except Exception:
        out.append(None)
json.dump(out, sys.stdout)
'''


def bind(chk: Check, tier: str, seed: int):
    from nmea2000.consts import PhysicalQuantities
    from nmea2000.decoder import NMEA2000Decoder
    wd = workdir("C17")
    db, _ = load_db(wd)
    rng = random.Random(seed)
    dec = NMEA2000Decoder(build_network_map=True)
    dec2 = NMEA2000Decoder(build_network_map=True, preferred_units={PhysicalQuantities.TEMPERATURE: "C", PhysicalQuantities.SPEED: "kts"})
    off = NMEA2000Decoder(build_network_map=False)
    for d_ in (dec, dec2):
        for s in (7, 9):
            d_.decode_basic_string(CLAIM % s)
    # a third instance with network mapping whose discovery window has passed: source 7 never claims (its messages
    # are returned all the same, and must carry the hash), source 9 claims another NAME than in the other instances
    import datetime as _dt
    import nmea2000.decoder as D
    from ..decoderrun import Clock
    late = NMEA2000Decoder(build_network_map=True)
    late.decode_basic_string("2020-01-01-00:00:00.000,6,60928,9,255,8,11,22,e3,39,01,8c,50,c0")
    orig_dt, D.datetime = D.datetime, Clock
    Clock.offset = _dt.timedelta(minutes=11)
    try:
        return _bind(chk, tier, seed, wd, db, rng, dec, dec2, off, late)
    finally:
        D.datetime = orig_dt
        Clock.offset = _dt.timedelta(0)


def _bind(chk, tier, seed, wd, db, rng, dec, dec2, off, late):
    KEY_ALTERNATIVES[0] = 6 if tier == "thorough" else 1
    from nmea2000.decoder import NMEA2000Decoder
    off_dump = NMEA2000Decoder(build_network_map=False, dump_to_file=str(wd / "dump-off.jsonl"))
    off_dump2 = NMEA2000Decoder(build_network_map=False, dump_to_file=str(wd / "dump-off2.jsonl"), dump_pgns=[59904])
    on_dump = NMEA2000Decoder(build_network_map=True, dump_to_file=str(wd / "dump-on.jsonl"), dump_pgns=["isoRequest", 127250])
    for s_ in (7, 9):
        on_dump.decode_basic_string(CLAIM % s_)
    groups, meta, lines, line_ref = [], [], [], []
    n_late = [0]
    n_dump = [0]
    cross: list = []          # one observation per definition with a not-available key: hashes of different definitions differ
    defs = [d for d in db["defs"] if d["decodable"] and d["static"]]
    # every decodable definition with key fields, the ones with variable-length (text) fields included
    keyed = [d for d in db["defs"] if d["decodable"] and any(f["pk"] for f in d["fields"])]
    plain = [d for d in defs if not any(f["pk"] for f in d["fields"])]
    chosen = keyed + plain[:: (1 if tier == "thorough" else 3 if tier != "selftest" else 12)]
    chosen.sort(key=lambda d: d["idx"])          # database order: siblings of one PGN follow each other
    by_id_single = {d["id"]: d for d in chosen if d["fast"] == "single" and 0 < d["len"] <= 8}
    for d in chosen:
        obs = []
        obs_tagged, obs_tags = [], []
        for tag, payload in variants(d, rng):
            o = decode_hash(dec, d, payload)
            if o is None or o["id"] != d["id"]:
                continue
            obs.append(o)
            obs_tagged.append(o)
            obs_tags.append((tag, payload))
            if tag == "base":
                for extra, kw in (("addr", dict(src=9, dst=35, prio=6)),):
                    o2 = decode_hash(dec, d, payload, **kw)
                    if o2:
                        obs.append(o2)
                o3 = decode_hash(dec2, d, payload)
                if o3:
                    obs.append(o3)
                o4 = decode_hash(off, d, payload)
                if o4:
                    o4["netmap"] = False
                    obs.append(o4)
                # decoders that also write a dump file (of everything / of another PGN only), network mapping off and on
                for dd_, nm_ in ((off_dump, False), (off_dump2, False), (on_dump, True)):
                    o6 = decode_hash(dd_, d, payload)
                    if o6:
                        o6["netmap"] = nm_
                        obs.append(o6)
                        n_dump[0] += 1
                for src in (7, 9):
                    o5 = decode_hash(late, d, payload, src=src)
                    if o5:
                        obs.append(o5)
                        n_late[0] += 1
            lines.append(corpus.basic_string(d["pgn"], payload, src=7))
            line_ref.append((len(groups), bytes(payload)))
        if len(obs) >= 2:
            groups.append({"id": d["id"], "obs": obs})
            meta.append(d["id"])
        cross.extend([o for o, (tag, _) in zip(obs_tagged, obs_tags) if tag.startswith("na") and "+" not in tag][:1])
    if len(cross) >= 2:
        for k in range(0, len(cross), 40):          # (groups of 40: the verdict compares all pairs)
            part = cross[k:k + 40]           # (one observation per definition: pairs always differ in id)
            if len(part) < 2:
                continue
            groups.append({"id": part[0]["id"], "obs": part})
            meta.append("(definitions with a not-available key)")
    # a second process with another hash seed decodes the same payloads (in the same order)
    p = subprocess.run([sys.executable, "-c", HELPER % (str(REPO), CLAIM)], input=json.dumps(lines), capture_output=True, text=True,
                       env=dict(os.environ, PYTHONHASHSEED="4711"))
    chk.gate(p.returncode == 0, f"second process failed: {p.stderr[-300:]}")
    for (g, payload), res in zip(line_ref, json.loads(p.stdout)):
        if res is not None and g < len(groups) and res[0] == groups[g]["id"]:
            groups[g]["obs"].append({"p": list(payload), "hash": res[1], "id": res[0], "netmap": True})
    # the same payloads as the four gateway clients deliver them (built with network mapping on, and off): every source claims
    # first, the source address tells which payload a delivered message came from
    from .. import clientrun as cr
    small = [(gi, g) for gi, g in enumerate(groups) if meta[gi] in by_id_single and any(f["pk"] for f in by_id_single[meta[gi]]["fields"])]
    small = small[:: max(1, len(small) // (24 if tier != "selftest" else 4))]
    n_client = 0
    for kind in cr.vloop.CLIENTS:
        items, back = [], {}
        for gi, g in small:
            d = by_id_single[meta[gi]]
            seen = set()
            for o in g["obs"]:
                pl = bytes(o["p"])
                if pl in seen or len(back) >= 240:
                    continue
                seen.add(pl)
                src = len(back) + 1
                back[src] = (gi, pl)
                items += [("raw", 60928, src, 255, 6, bytes.fromhex("e903e0e7008232c0")), ("raw", d["pgn"], src, 255, 3, pl)]
        for netmap in (True, False):
            packets = cr.wire_packets(kind, items, rng, with_bad=False)
            for m in cr.deliveries(kind, packets, {"build_network_map": netmap}):
                if m.PGN == 60928 or m.source not in back:
                    continue
                gi, pl = back[m.source]
                if m.id == groups[gi]["id"]:
                    groups[gi]["obs"].append({"p": list(pl), "hash": m.hash or "", "id": m.id, "netmap": netmap})
                    n_client += 1
    chk.gate(tier == "selftest" or n_client >= 200, f"only {n_client} observations through gateway clients")
    chk.add(observations_through_clients=n_client)
    bad = validate("C17", groups, wd, shards=8)
    for i, vs in bad:
        for v in vs:
            g = groups[i]
            chk.violation(f"{v['c']}/{meta[i]}", f"{meta[i]}: {v['c']} among {len(g['obs'])} observations, e.g. "
                          f"{[(bytes(o['p']).hex(), o['hash'][:8]) for o in g['obs'][:4]]}", {"group": g})
    by_chosen = {d["id"]: d for d in chosen}
    nkey = sum(1 for g, m in zip(groups, meta) if m in by_chosen and any(f["pk"] for f in by_chosen[m]["fields"]))
    chk.gate(nkey >= (100 if tier != "selftest" else 100), f"only {nkey} definitions with key fields were observed")
    chk.gate(n_late[0] >= len(groups), f"only {n_late[0]} observations from the instance past its discovery window")
    chk.gate(n_dump[0] >= len(groups), f"only {n_dump[0]} observations from decoders that write a dump file")
    chk.add(observations_after_discovery_window=n_late[0], observations_from_dumping_decoders=n_dump[0])
    chk.add(traces_validated_against_impl=len(groups), observations=sum(len(g["obs"]) for g in groups),
            definitions_with_key_fields=nkey, second_process_observations=len(lines), evaluations=sum(len(g["obs"]) for g in groups),
            distinct_nontrivial=len(groups))
    chk.sample({"definition": meta[0], "observations": [{"payload": bytes(o["p"]).hex(), "hash": o["hash"], "netmap": o["netmap"]} for o in groups[0]["obs"][:5]]})
    chk.assumptions += ["MD5 collision-freeness", "key fields that are also match fields are constant within a definition and are not varied",
                        "definitions are decoded in database order by one decoder process (sibling definitions of a PGN follow each other)"]


def run(tier: str, seed: int) -> int:
    chk = Check("C17", tier, seed, LEVEL)
    wd = workdir("C17m")
    model(chk, tier, wd)
    bind(chk, tier, seed)
    return chk.finish()


@contextlib.contextmanager
def mutant_source_in_hash():
    from nmea2000.message import NMEA2000Message as M
    orig = M.add_data

    def bad(self, src, *a, **k):
        orig(self, src, *a, **k)
        if self.hash is not None:
            import hashlib
            self.hash = hashlib.md5((self.hash + str(src)).encode()).hexdigest()
    M.add_data = bad
    try:
        yield
    finally:
        M.add_data = orig


@contextlib.contextmanager
def mutant_pk_flag_ignored():
    from nmea2000.message import NMEA2000Message as M
    orig = M.add_data

    def bad(self, *a, **k):
        saved = [f.part_of_primary_key for f in self.fields]
        seen = False
        for f in self.fields:
            if f.part_of_primary_key and seen:
                f.part_of_primary_key = False                # only the first key field is used
            seen = seen or bool(f.part_of_primary_key)
        orig(self, *a, **k)
        for f, s in zip(self.fields, saved):
            f.part_of_primary_key = s
    M.add_data = bad
    try:
        yield
    finally:
        M.add_data = orig


MUTANTS = {"source added to the hash input": mutant_source_in_hash, "only the first key field hashed": mutant_pk_flag_ignored}
