"""C14 — close() is final and status notifications are faithful.

B1  MC_Client (shared with C13): close() may be called in every state of the model - before
    connect, while the transport is being opened, during back-off, connected and idle, inside a
    (suspending) status callback, right after a fault, next to a failing send; the monitor clauses
    C14.* (left-CLOSED, open-after-close, notified-after-close, same-state-notified-twice,
    notification-does-not-match-state, link-not-shut-when-close-returned, delivery-after-close-returned,
    tasks-still-pending, late-connection-left-open), ClosedFinal and AllShut hold in every behaviour.
B3  the four real clients on the virtual-time loop: close() issued at every loop step of the session
    shapes (gateway accepts at once / refuses 2 attempts first / keeps the open pending for 2 s so
    that close() lands in the in-flight window), followed by a second connect() and a send(), with
    status callbacks that succeed, raise or suspend; plus fault sessions with raising / suspending
    callbacks for the notification clauses; each event log is validated by TLC against the monitor.
"""
from __future__ import annotations

import contextlib

from .. import clientfaults as cf
from .. import vloop
from ..common import Check, workdir
from . import c13

LEVEL = "model_checking"


def closer(step: int | None, at: float | None, then: tuple = ()):
    def inject(s: vloop.Session, state: dict):
        def fire():
            state["last_disturbance"] = s.loop.time()
            # (every third session leaves the client's `async with` block instead of calling close() itself)
            s.user("close", s.client.close if (step or 0) % 3 != 1 else (lambda: s.client.__aexit__(None, None, None)))
            for i, what in enumerate(then):
                def later(what=what):
                    if what == "connect":
                        s.user("connect", s.client.connect)
                    else:
                        s.user("send", lambda: s.client.send(cf.iso_request()))
                s.loop.call_later(0.004 * (i + 1) if what == "send-now" else 0.5 * (i + 1), later)
        if step is not None:
            s.at_step(step, fire)
        else:
            s.at_time(at, fire)
    return inject


def double_closer(at: float, mode: str, gap: float):
    """close() twice: "both" - the second call arrives while the first is still inside its (suspending) CLOSED notification;
    "abandoned" - the first call is given up by its caller after `gap` seconds (asyncio.wait_for), a second one follows.
    Whichever call returns, close() has returned: the link is shut, nothing is delivered any more, the tasks finish."""
    import asyncio

    def inject(s: vloop.Session, state: dict):
        def fire():
            state["last_disturbance"] = s.loop.time()
            if mode == "both":
                s.user("close", s.client.close)
                s.loop.call_later(gap, lambda: s.user("close", s.client.close))
            else:
                s.user("close", lambda: asyncio.wait_for(s.client.close(), gap))
                s.loop.call_later(gap + 0.3, lambda: s.user("close", s.client.close))
            # traffic keeps coming on the old link for a while: none of it may be delivered once a close() has returned
            pk = cf.valid_packet(state.get("kind", "ebyte"), 2)
            for k in range(1, 8):
                s.loop.call_later(gap + 0.05 * k, lambda: [s.feed(c, pk) for c in list(s.readers)[-1:]
                                                           if not s.readers[c].at_eof() and s.readers[c].exception() is None
                                                           and not s.writers[c].closed])
        s.at_time(at, fire)
    return inject


class RefuseLater(cf.Plan):
    """the first connection is accepted, the next n attempts are refused"""

    def __init__(self, n: int):
        super().__init__(refuse=0)
        self.n = n

    def open_result(self, k):
        return "refuse" if 2 <= k <= 1 + self.n else "accept"


class DrainPlan(cf.Plan):
    """from t = 2.9 s on every drain() suspends for half a second (back-pressure) and, if asked, then fails"""

    def __init__(self, fail: bool):
        super().__init__(refuse=0)
        self.fail, self.sess = fail, None

    def _late(self):
        return self.sess is not None and self.sess.loop.time() >= 2.9

    def drain_delay(self, conn, nth):
        return 0.5 if self._late() else None

    def drain_fails(self, conn, nth):
        return self.fail and self._late()


def sessions(tier: str, seed: int, kinds=vloop.CLIENTS):
    logs, meta = [], []
    c13.CONF.clear()
    shapes = [("accept", dict(refuse=0)), ("refuse2", dict(refuse=2)), ("pending", dict(refuse=0, pending=2.0)),
              ("refuse1-pending", dict(refuse=1, pending=1.0))]
    # the serial client's configuration write fails in every attempt (a port that opens and then refuses writes): close() during
    # the pauses between such attempts, and while the port is still being opened
    serial_shapes = [("cfgfail", dict(refuse=0, write_fail_after=0)), ("pending-cfgfail", dict(refuse=0, pending=2.0, write_fail_after=0)),
                     ("refuse1-cfgfail", dict(refuse=1, write_fail_after=0))]
    for kind in kinds:
        for sname, kw in shapes + (serial_shapes if kind == "waveshare" else []):
            _, raw = cf.run(kind, cf.Plan(**kw), t_end=40.0)
            last = next((e["step"] for e in raw if e["e"] == "Deliver"), None) or max(e["step"] for e in raw if e["t"] < 6.0)
            steps = list(range(1, last + 6))
            for cb in ("ok", "raise", "slow", "slowC"):
                use = steps if cb == "ok" else steps[::2]
                if tier == "selftest":
                    use = use[::3]
                for k in use:
                    then = ("connect",) if k % 3 == 0 else ("connect", "send") if k % 2 else ("send-now", "connect")
                    log, raw2 = cf.run(kind, cf.Plan(**kw), closer(k, None, then), status_cb=cb, t_end=40.0)
                    logs.append(log)
                    meta.append((kind, "close", sname, cb, f"step{k}"))
                    if then == ("connect",) and cb != "raise" and "pending" not in sname:
                        c13.CONF.append((cb, cf.conformance_log(raw2), f"{kind} close at step {k} shape={sname} callback={cb}"))
            # close at fine-grained times inside the in-flight / back-off / callback windows
            for t in (0.0, 0.001, 0.25, 0.499, 0.5, 0.75, 1.0, 1.499, 1.5, 1.9, 2.0, 2.001, 2.1, 2.3, 3.0):
                log, _ = cf.run(kind, cf.Plan(**kw), closer(None, t, ("send-now", "connect")), status_cb="slow", t_end=40.0)
                logs.append(log)
                meta.append((kind, "close", sname, "slow", f"t={t}"))
        # close() called twice
        for mode in ("both", "abandoned"):
            for gap in (0.05, 0.15, 0.25):
                for cb in ("slow", "ok", "raise"):
                    if cb != "slow" and gap != 0.15:
                        continue

                    def dbl(s, state, mode=mode, gap=gap, kind=kind):
                        state["kind"] = kind
                        double_closer(3.0, mode, gap)(s, state)
                    log, raw2 = cf.run(kind, cf.Plan(refuse=0), dbl, status_cb=cb, t_end=40.0)
                    logs.append(log)
                    meta.append((kind, "close", f"twice-{mode}", cb, f"gap={gap}"))
                    if cb in ("ok", "slow"):
                        c13.CONF.append((cb, cf.conformance_log(raw2), f"{kind} close twice ({mode}, gap {gap}) callback={cb}"))
        # close() while a reconnection caused by a failing send is in progress (the old receive loop is still alive)
        if kind != "actisense":
            for late in ("write-error-late-eof@0.7", "write-error-late-eof@0.1"):
                for dt in (0.0, 0.001, 0.004, 0.008, 0.0099, 0.0101, 0.012, 0.02, 0.05, 0.3):
                    for cb in ("ok", "slowC"):
                        plan = cf.Plan(refuse=0)

                        def both(s, state, plan=plan, late=late, dt=dt):
                            c13.fault_injector(kind, late, None, 3.0, plan)(s, state)
                            closer(None, 3.0 + dt, ("send-now", "connect"))(s, state)
                        log, _ = cf.run(kind, plan, both, status_cb=cb, t_end=40.0)
                        logs.append(log)
                        meta.append((kind, "close", "send-fault-reconnect", cb, f"+{dt}s"))
        # close() while a send() is suspended in drain() under back-pressure (or queued behind such a send on the
        # send lock); the suspended send then fails, or the queued one writes to the link close() has shut: the
        # fault handler of send() runs after CLOSED and must neither report DISCONNECTED nor reconnect
        if kind != "actisense":
            for fail in (True, False):
                for nsend in (1, 2):
                    for dt in (0.001, 0.1, 0.3):
                        for cb in ("ok", "slowD"):
                            plan = DrainPlan(fail)

                            def susp(s, state, plan=plan, dt=dt, nsend=nsend):
                                plan.sess = s
                                for j in range(nsend):
                                    s.at_time(3.0 + 0.01 * j, lambda: s.user("send", lambda: s.client.send(cf.iso_request())))
                                closer(None, 3.0 + dt, ("connect",))(s, state)
                            log, _ = cf.run(kind, plan, susp, status_cb=cb, t_end=40.0)
                            logs.append(log)
                            meta.append((kind, "close", f"suspended-send{nsend}{'-fails' if fail else ''}", cb, f"+{dt}s"))
        # the gateway's "Sorry,Limited" banner (EByte): the client gives the link up 30 s later; every change of the
        # state on the way must be notified, also when close() arrives while the client is waiting
        if kind == "ebyte":
            for cb in ("ok", "slow", "raise"):
                plan = cf.Plan(refuse=0)
                log, _ = cf.run(kind, plan, c13.fault_injector(kind, "sorry", None, 3.0, plan), status_cb=cb, t_end=80.0)
                logs.append(log)
                meta.append((kind, "sorry", "accept", cb, "t=3.0"))
                for dt in (0.0, 0.001, 0.1, 0.29, 5.0, 29.9, 30.1):
                    plan = cf.Plan(refuse=0)

                    def banner_close(s, state, plan=plan, dt=dt):
                        c13.fault_injector(kind, "sorry", None, 3.0 + (0.15 if dt < 1 else 0), plan)(s, state)
                        closer(None, 3.0 + dt, ("connect",))(s, state)
                    log, _ = cf.run(kind, plan, banner_close, status_cb=cb, t_end=80.0)
                    logs.append(log)
                    meta.append((kind, "close", "sorry-banner", cb, f"+{dt}s"))
        # close() right after a link was lost with an error (reset, time-out), while the gateway refuses the reconnection:
        # the lost link has nothing more to give, close() still has to finish its job
        for fault in ("reset", "timeout", "eof"):
            for dt in (0.001, 0.2, 0.6, 1.2):
                for cb in ("ok", "slowD"):
                    plan = RefuseLater(2)
                    plan_fault = c13.fault_injector(kind, fault, None, 3.0, plan)

                    def lost_then_close(s, state, plan_fault=plan_fault, dt=dt):
                        plan_fault(s, state)
                        closer(None, 3.0 + dt, ("connect",))(s, state)
                    log, _ = cf.run(kind, plan, lost_then_close, status_cb=cb, t_end=40.0)
                    logs.append(log)
                    meta.append((kind, "close", f"after-{fault}", cb, f"+{dt}s"))
        # faults with raising / suspending callbacks: notification clauses
        for cb in ("raise", "slow"):
            for fault in ("eof", "write-error"):
                if fault == "write-error" and kind == "actisense":
                    continue
                for dt in (0.1, 0.5, 2.0):
                    plan = cf.Plan(refuse=1)
                    log, _ = cf.run(kind, plan, c13.fault_injector(kind, fault, None, 0.5 + dt + (0.3 if cb == "slow" else 0), plan),
                                    status_cb=cb)
                    logs.append(log)
                    meta.append((kind, fault, "refuse1", cb, f"+{dt}s"))
    return logs, meta


def bind(chk: Check, tier: str, seed: int):
    wd = workdir("C14")
    logs, meta = sessions(tier, seed)
    nfz = 0
    for k in range({"quick": 1, "thorough": 20, "selftest": 0}[tier]):      # random sessions with a close() somewhere
        fl, fm = c13.fuzz_sessions({"quick": 150, "thorough": 250, "selftest": 0}[tier], seed * 100 + k, with_close=True)
        logs += fl
        meta += [(m[0], "close", "fuzz", m[3], m[1]) for m in fm]
        nfz += len(fl)
    chk.add(random_sessions=nfz)
    c13.judge(chk, wd, logs, meta, "C14", "c14")
    c13.conformance(chk, wd, c13.CONF if tier != "selftest" else [], "c14")
    closed = sum(1 for lg in logs if any(e["e"] == "RetClose" for e in lg))
    inflight = sum(1 for lg in logs if any(e["e"] == "OpenResult" and e["r"] == "accept" and
                                          any(x["e"] == "CallClose" and x["t"] <= e["t"] for x in lg) for e in lg))
    chk.gate(closed > len(logs) // 2, f"close() returned in only {closed} of {len(logs)} sessions")
    chk.gate(tier == "selftest" or inflight >= 8, f"only {inflight} sessions had a connection completing after close()")
    chk.add(traces_validated_against_impl=len(logs), sessions_closed=closed, connections_completed_after_close=inflight,
            events=sum(len(lg) for lg in logs))
    k = next((i for i, m in enumerate(meta) if m[2] == "pending" and m[4] == "t=1.0"), 0)
    chk.sample({"session": meta[k], "events": [f"{e['t']}ms {e['e']} {e['s'] or e['r'] or e['conn'] or e['k'] or ''} [{e['st']}]"
                                               for e in logs[k] if e["e"] not in ("ReadStart", "ReadEnd")][:30]})
    chk.assumptions += ["virtual-time asyncio loop; client.state sampled through the public property at every recorded event",
                        "'tasks pending' = asyncio tasks other than the harness's own still alive 40 virtual seconds after the session start"]


def run(tier: str, seed: int) -> int:
    chk = Check("C14", tier, seed, LEVEL)
    c13.model(chk, tier)
    bind(chk, tier, seed)
    return chk.finish()


@contextlib.contextmanager
def mutant_connect_ignores_closed():
    import nmea2000.ioclient as I
    orig = I.AsyncIOClient.connect

    async def bad(self):
        if self._state == I.State.CLOSED:
            self._state = I.State.DISCONNECTED            # CLOSED guard removed: a closed client can be revived
        return await orig(self)
    I.AsyncIOClient.connect = bad
    try:
        yield
    finally:
        I.AsyncIOClient.connect = orig


@contextlib.contextmanager
def mutant_duplicate_notifications():
    import nmea2000.ioclient as I
    orig = I.AsyncIOClient._update_state

    async def bad(self, new_state):
        same = self._state == new_state
        await orig(self, new_state)
        if same and self.status_callback:
            await self.status_callback(self.state)        # no-change suppression removed
    I.AsyncIOClient._update_state = bad
    try:
        yield
    finally:
        I.AsyncIOClient._update_state = orig


MUTANTS = {"CLOSED guard removed from connect": mutant_connect_ignores_closed,
           "no-change suppression removed": mutant_duplicate_notifications}
