"""C15 — JSON round-trips to an equivalent, re-encodable message; the dump is faithful.

B1  none of its own beyond the codec laws (C01/C02): the property is a statement about rendering;
    its substance is the binding below.  (DumpMatch and the per-message clause are operators of
    Trace_Codec.)
B3  (a) every decodable fixed-layout definition x payloads (neutral, boundary, random; all field types
    incl. 64-bit numbers, floats, non-ASCII strings, binary, absent values; with and without a source
    identity): to_json() text is parsed by Python's json module (an independent parser), the parsed
    object's header and per-field id / value / raw value are rendered to canonical texts next to the
    original's (bytes as hex, dates and times as ISO text, intervals as seconds) and TLC compares them;
    from_json(text) must encode to the same bytes as the original (encodable definitions).
    (b) decoders with dump_to_file and dump filters by number, by id (spelled as the definition),
    mixed and empty process mixed histories (incl. non-ASCII strings); the file is read back after
    close() and TLC checks: exactly the JSON text of every returned message that matches the filter,
    one per line, in order.
"""
from __future__ import annotations

import contextlib
import json
import math
import random
from datetime import date, time, timedelta

from .. import corpus
from ..codec import load_db, validate
from ..common import REPO, Check, workdir
from .c02 import payload_of_actisense

LEVEL = "model_checking"


def canon(x) -> str:
    """canonical text of a value under the property's rendering rules"""
    if isinstance(x, (bytes, bytearray)):
        return json.dumps(bytes(x).hex())
    if isinstance(x, (date, time)):
        return json.dumps(x.isoformat())
    if isinstance(x, timedelta):
        return repr(float(x.total_seconds()))
    if isinstance(x, float):
        return "nonfinite" if not math.isfinite(x) else repr(x)
    if isinstance(x, (list, tuple)):
        return "[" + ",".join(canon(y) for y in x) + "]"
    if hasattr(x, "value") and hasattr(x, "name") and not isinstance(x, (str, int)):      # enums are written by value
        return canon(x.value)
    return json.dumps(x, ensure_ascii=False)


def canon_parsed(x) -> str:
    if isinstance(x, float):
        return repr(x)
    if isinstance(x, list):
        return "[" + ",".join(canon_parsed(y) for y in x) + "]"
    return json.dumps(x, ensure_ascii=False)


def message_record(msg, encodable: bool, text: str | None = None, encode_json=None) -> dict:
    """text: the JSON as another route printed it (the command line); encode_json(text) -> Actisense line by that route"""
    from nmea2000.encoder import NMEA2000Encoder
    from nmea2000.message import NMEA2000Message
    rec = {"kind": "msg", "parses": False, "hdrSame": False, "f": [], "back": "na"}
    text = msg.to_json() if text is None else text
    try:
        obj = json.loads(text)
        rec["parses"] = True
    except Exception:                      # noqa: BLE001
        return rec
    rec["hdrSame"] = (obj.get("PGN"), obj.get("id"), obj.get("source"), obj.get("destination"), obj.get("priority")) == \
        (msg.PGN, msg.id, msg.source, msg.destination, msg.priority) and len(obj.get("fields", [])) == len(msg.fields)
    if not rec["hdrSame"]:
        return rec
    nonfinite = False
    for f, jf in zip(msg.fields, obj["fields"]):
        v, r = canon(f.value), canon(f.raw_value)
        nonfinite = nonfinite or "nonfinite" in (v, r)
        rec["f"].append({"id": f.id, "jid": jf.get("id"), "v": v, "jv": canon_parsed(jf.get("value")),
                         "r": r, "jr": canon_parsed(jf.get("raw_value"))})
    if nonfinite:
        rec["f"] = [x for x in rec["f"] if "nonfinite" not in (x["v"], x["r"])]      # JSON has no NaN/inf: excepted
    if encodable:
        try:
            b0 = payload_of_actisense(NMEA2000Encoder().encode_actisense(msg))
        except Exception:                  # noqa: BLE001
            return rec
        try:
            m2 = NMEA2000Message.from_json(text)
            b1 = payload_of_actisense(NMEA2000Encoder().encode_actisense(m2) if encode_json is None else encode_json(text))
            rec["back"] = "same" if b0 == b1 else "differs"
            # the parsed message object itself: same PGN, id and addressing (zero is an address and a priority)
            if (m2.PGN, m2.id, m2.source, m2.destination, m2.priority) != (msg.PGN, msg.id, msg.source, msg.destination, msg.priority):
                rec["hdrSame"] = False
            elif NMEA2000Encoder().encode_actisense(m2).split()[:2] != NMEA2000Encoder().encode_actisense(msg).split()[:2]:
                rec["back"] = "differs"
        except Exception as e:             # noqa: BLE001
            rec["back"], rec["err"] = "error", f"{type(e).__name__}: {e}"[:100]
    return rec


CLAIM = "2020-01-01-00:00:00.000,6,60928,%d,255,8,e9,03,e0,e7,00,82,32,c0"
ADDRS = [(8, 255, 3), (0, 255, 3), (8, 0, 3), (8, 35, 0), (0, 0, 0), (253, 254, 7), (8, 255, 6)]


TEXTS = ["Zoë".encode(), "漢字 \U0001F6A4".encode(), b"Caf\xe9", "Mar\u00eda".encode()[:4], b"\x80abc", b"ab\xff", b"\xe6\xbc", b"a\xc3(b", b"\xed\xa0\x80x"]


def lau(text: str) -> bytes:
    b = text.encode("utf-8")
    return bytes([len(b) + 2, 1]) + b


def dump_histories(db, rng: random.Random, wd, tier: str):
    """(filter nums, filter ids, [basic strings]) -> dump records"""
    from nmea2000.decoder import NMEA2000Decoder
    # traffic: vessel heading, wind data, furuno heave (proprietary), configuration information with non-ASCII text
    cfginfo = lambda a, b, c: lau(a) + lau(b) + lau(c)      # noqa: E731
    lines = []
    for i in range(1, 9):
        lines.append(corpus.basic_string(127250, bytes([i, 0x10 + i, 0x20, 0, 0, 0, 0, 0xFC]), src=3))
        lines.append(corpus.basic_string(130306, bytes([i, 0x10 + i, 0x01, 0x20, 0x03, 0xFA, 0xFF, 0xFF]), src=4))
        lines.append(corpus.basic_string(65280, bytes([0x3F, 0x9F, i, 0, 0, 0, 0xFF, 0xFF]), src=5))
    # ISO address claims (the decoder treats them specially: they feed its source map) from three sources, one of them twice
    for src_ in (3, 4, 5, 3):
        lines.append(CLAIM % src_)
    for txt in (("plain", "ascii", "text"), ("wórld", "Café del Mar", "x"), ("漢字", "Γειά", "\U0001F6A4")):
        p = cfginfo(*txt)
        lines.append(corpus.basic_string(126998, p, src=6))
    for k, raw in enumerate(TEXTS):
        p = b"".join(bytes([len(t) + 2, 1]) + t for t in (raw, b"plain", TEXTS[(k + 3) % len(TEXTS)]))
        lines.append(corpus.basic_string(126998, p, src=6))
    # several definitions of one PGN number (ISO transport protocol 60416: RTS, CTS, EOM, BAM, abort), each sent
    # more than once and in varying order: a filter by id selects one definition, not the number
    multi = [d for d in db["defs"] if d["pgn"] == 60416]
    multi_ids = []
    probe = NMEA2000Decoder()
    for rep in range(3):
        for d in (multi if rep != 1 else multi[::-1]):
            ln = corpus.basic_string(60416, corpus.build_payload(d, {}, rng if rep else None), src=7 + rep)
            try:
                m = probe.decode_basic_string(ln, already_combined=True)
            except Exception:              # noqa: BLE001
                m = None
            if m is not None and m.id == d["id"]:
                lines.append(ln)
                multi_ids.append(d["id"])
    multi_ids = sorted(set(multi_ids))
    # fast-packet messages delivered frame by frame (EByte packets): the dump line is the JSON of the message as returned
    from .. import fastpacket as fp
    for q, fill in ((1, 0x11), (2, 0x22), (3, 0x33)):
        full = bytes([0x10 + q, 0x20, 0x00, 0x10, 0x20, 0x01, fill, 0x02, 0x03, 0x00, 0x05, 0x06, 0x07, 0x00])      # distance log
        pkts, i, pos = [], 0, 0
        while pos < len(full):
            cap_ = 6 if i == 0 else 7
            pkts.append(fp.ebyte_packet(128275, 9, 255, 6, fp.can_data(q, i, len(full), list(full[pos:pos + cap_]))))
            pos += cap_
            i += 1
        lines.append(("tcp", pkts))
    rng.shuffle(lines)
    filters = [([], []), ([127250], []), ([], ["windData"]), ([], ["furunoHeave"]), ([130306], ["configurationInformation"]),
               ([65280, 126998], []), ([], ["vesselHeading", "configurationInformation"]), ([1], ["noSuchId"]),
               ([60416], []), ([128275], []), ([], ["distanceLog"]), ([60928], []), ([], ["isoAddressClaim"]), ([127250], ["isoAddressClaim"])]
    filters += [([], [i]) for i in multi_ids] + [([127250], [multi_ids[-1]]), ([], multi_ids[:2] + ["windData"])]
    all_ids = ["vesselHeading", "windData", "furunoHeave", "configurationInformation", "distanceLog", "isoAddressClaim"] + multi_ids
    for _ in range({"quick": 6, "thorough": 40, "selftest": 0}[tier]):
        filters.append((rng.sample([127250, 130306, 65280, 126998, 60416, 128275, 60928], rng.randint(0, 2)), rng.sample(all_ids, rng.randint(1, 3))))
    recs, meta = [], []
    for n, (nums, ids) in enumerate(filters):
        path = wd / f"dump{n}" / "out.jsonl"
        # every third session: the decoder also converts to preferred units, and the library's loggers are switched to DEBUG
        # (verbose runs serialise and format what quiet runs do not)
        import logging
        loud = n % 3 == 2
        kw_ = {}
        if loud:
            from nmea2000.consts import PhysicalQuantities as PQ
            kw_ = {"preferred_units": {PQ.ANGLE: "deg", PQ.SPEED: "kts", PQ.TEMPERATURE: "C", PQ.PRESSURE: "bar"}}
            was_disabled = logging.root.manager.disable
            logging.disable(logging.NOTSET)
            lg_ = logging.getLogger("nmea2000")
            old_level, old_prop = lg_.level, lg_.propagate
            lg_.setLevel(logging.DEBUG)
            lg_.propagate = False
            nh_ = logging.NullHandler()
            lg_.addHandler(nh_)
        dec = NMEA2000Decoder(dump_to_file=str(path), dump_pgns=list(nums) + list(ids), **kw_)
        if n % 2:
            dec.__enter__()             # every other session uses the decoder as a context manager (left by __exit__ below)
        out = []
        for ln in lines:
            try:
                if isinstance(ln, tuple):
                    m = None
                    for pk_ in ln[1]:
                        m = dec.decode_tcp(pk_)
                else:
                    m = dec.decode_basic_string(ln, already_combined=True)
            except Exception:              # noqa: BLE001
                m = None
            if m is not None:
                try:
                    js = m.to_json()
                except Exception as e:     # noqa: BLE001      (no line of a dump file can equal this)
                    js = f"<to_json raised {type(e).__name__}>"
                out.append({"pgn": m.PGN, "id": m.id, "json": js})
        if n % 2:
            dec.__exit__(None, None, None)
        else:
            dec.close()
        if loud:
            lg_.removeHandler(nh_)
            lg_.setLevel(old_level)
            lg_.propagate = old_prop
            logging.disable(was_disabled)
        try:
            text = path.read_bytes().decode("utf-8")
            got = text.split("\n")
            if got and got[-1] == "":
                got.pop()
        except UnicodeDecodeError:
            got = ["<file is not valid UTF-8>"]
        recs.append({"kind": "dump", "nums": list(nums), "ids": list(ids), "out": out, "lines": got})
        meta.append(("dump", f"nums={nums} ids={ids}"))
    return recs, meta


def bind(chk: Check, tier: str, seed: int):
    from nmea2000.decoder import NMEA2000Decoder
    wd = workdir("C15")
    db, _ = load_db(wd)
    rng = random.Random(seed)
    dec = NMEA2000Decoder()
    decn = NMEA2000Decoder(build_network_map=True)
    decn.decode_basic_string(CLAIM % 8)
    recs, meta = [], []
    defs = [d for d in db["defs"] if d["decodable"]]
    if tier == "selftest":
        defs = defs[::4]
    nrand = {"quick": 3, "thorough": 25, "selftest": 1}[tier]
    for d in defs:
        n_ok = 0
        gens = list(corpus.payloads_for(d, rng, nrand)) if d["static"] else [("base", corpus.build_payload(d, {}))] + \
            [(f"rand{k}", corpus.build_payload(d, {}, rng)) for k in range(nrand)]
        if tier != "thorough" and len(gens) > 14:
            gens = gens[:2] + rng.sample(gens[2:], 12)
        # texts as devices send them: well-formed non-ASCII, Latin-1 bytes, a multi-byte character cut at a length limit, stray
        # continuation and 0xFF bytes (whatever the decoder makes of them must survive JSON)
        tf = [i for i, f in enumerate(d["fields"]) if f["kind"] in ("strlau", "strlz")]
        for k, txt in enumerate(TEXTS if tf else ()):
            gens.append((f"text-bytes{k}", corpus.build_payload(d, {i: (txt if (j + k) % 2 == 0 else b"ok") for j, i in enumerate(tf)}, rng)))
        for tag, payload in gens:
            use = decn if (n_ok % 3 == 2) else dec
            try:
                # addressing varies and visits its zero ends (source 0, destination 0, priority 0)
                a_src, a_dst, a_prio = ADDRS[len(recs) % len(ADDRS)]
                m = use.decode_basic_string(corpus.basic_string(d["pgn"], payload, src=a_src, dst=a_dst, prio=a_prio), already_combined=True)
            except Exception:              # noqa: BLE001
                continue
            if m is None:
                continue
            n_ok += 1
            # twice: the second record is taken from the same message object after it has been looked into and encoded
            # once (what a forwarding application does before it serialises a message)
            for again in ((False, True) if d["encodable"] and tag in ("base", "rand-in0") else (False,)):
                try:
                    if again:
                        for f_ in m.fields:
                            m.get_field_by_id(f_.id)
                    recs.append(message_record(m, d["encodable"]))
                except Exception as e:     # noqa: BLE001
                    recs.append({"kind": "msg", "parses": False, "hdrSame": False, "f": [], "back": "na", "err": f"{type(e).__name__}: {e}"[:120]})
                meta.append((d["id"], tag + ("/used" if again else "")))
    # messages as the gateway clients obtain them: binary packets handed to decode_tcp / decode_usb as bytes and as mutable
    # buffers (the serial client passes slices of its receive buffer); fast messages frame by frame
    from .. import clientrun as cr
    from .. import fastpacket as fp
    singles = [d for d in defs if d["fast"] == "single"][:: (3 if tier != "thorough" else 1)]
    fasts = [d for d in defs if d["fast"] == "fast" and d["static"]][:: (9 if tier != "thorough" else 2)]
    n_routes = 0
    for j, d in enumerate(singles + fasts):
        payload = corpus.build_payload(d, {}, rng)
        src, dst, prio = 8 + j % 5, 255, 3
        pf = (d["pgn"] >> 8) & 0xFF
        ident = (prio << 26) | (((d["pgn"] & 0x3FF00) | dst if pf < 240 else d["pgn"]) << 8) | src
        if d["fast"] == "single":
            frames = [bytes(payload[:8])]
        else:
            frames, pos, i = [], 0, 0
            while pos < len(payload) or i == 0:
                cap_ = 6 if i == 0 else 7
                frames.append(fp.can_data(j % 8, i, len(payload), list(payload[pos:pos + cap_])))
                pos += cap_
                i += 1
        for route, mk in (("tcp-bytes", lambda f: fp.ebyte_packet(d["pgn"], src, dst, prio, f)),
                          ("tcp-buffer", lambda f: bytearray(fp.ebyte_packet(d["pgn"], src, dst, prio, f))),
                          ("usb-bytes", lambda f: bytes(cr.usb_packet(ident, f.ljust(8, b"\xff")))),
                          ("usb-buffer", lambda f: bytearray(cr.usb_packet(ident, f.ljust(8, b"\xff"))))):
            rdec = NMEA2000Decoder()
            m = None
            try:
                for f in frames:
                    m = (rdec.decode_tcp if route.startswith("tcp") else rdec.decode_usb)(mk(f))
            except Exception:              # noqa: BLE001
                continue
            if m is None or m.id != d["id"]:
                continue
            try:
                recs.append(message_record(m, d["encodable"]))
            except Exception as e:         # noqa: BLE001
                recs.append({"kind": "msg", "parses": False, "hdrSame": False, "f": [], "back": "na", "err": f"{type(e).__name__}: {e}"[:120]})
            meta.append((d["id"], f"via-{route}"))
            n_routes += 1
    chk.add(messages_through_packet_routes=n_routes)
    # the command line: `decode --frame <Actisense line>` prints the message's JSON, `encode --frame <JSON>` prints the
    # Actisense line of the parsed message (one process per call)
    import os
    import subprocess
    import sys as _sys
    from nmea2000.encoder import NMEA2000Encoder

    def cli(*args):
        p = subprocess.run([_sys.executable, "-m", "nmea2000.cli", *args], cwd=str(wd), capture_output=True, text=True, timeout=120,
                           env=dict(os.environ, PYTHONPATH=str(REPO)))
        return [ln for ln in p.stdout.splitlines() if ln.strip()]
    n_cli = 0
    cli_defs = [d for d in defs if d["encodable"] and d["static"]][:: max(1, len(defs) // (6 if tier != "thorough" else 40))]
    for d in (cli_defs if tier != "selftest" else cli_defs[:2]):
        payload = corpus.build_payload(d, {}, rng)
        try:
            m = NMEA2000Decoder().decode_basic_string(corpus.basic_string(d["pgn"], payload, src=8, dst=255, prio=3), already_combined=True)
            line = "A000001.000 " + NMEA2000Encoder().encode_actisense(m)
            m = NMEA2000Decoder().decode_actisense_string(line)
        except Exception:                  # noqa: BLE001
            continue
        if m is None:
            continue
        out = cli("decode", "--frame", line)
        text = out[-1] if out else ""
        recs.append(message_record(m, True, text=text, encode_json=lambda t: (cli("encode", "--frame", t) or [""])[-1]))
        meta.append((d["id"], "via-command-line"))
        n_cli += 1
    chk.add(messages_through_the_command_line=n_cli)
    drecs, dmeta = dump_histories(db, rng, wd, tier)
    nmsg = len(recs)
    recs += drecs
    meta += dmeta
    bad = validate("C15", recs, wd, shards=8)
    for i, vs in bad:
        for v in vs:
            if recs[i]["kind"] == "dump":
                r = recs[i]
                byid = "by-id" if r["ids"] and not r["nums"] else "by-number" if r["nums"] and not r["ids"] else "mixed" if r["ids"] else "empty"
                chk.violation(f"{v['c']}/{byid}", f"dump filter {meta[i][1]}: {len(r['lines'])} lines for {len(r['out'])} returned messages: {v['c']}",
                              {"filter": meta[i][1], "lines": r["lines"][:3], "returned": [o["id"] for o in r["out"]][:10]})
            else:
                did, tag = meta[i]
                fld = recs[i]["f"][v["f"] - 1] if v["f"] > 0 and recs[i]["f"] else {}
                chk.violation(f"{v['c']}/{did}/{fld.get('id', '-')}", f"{did} ({tag}): {v['c']} {fld} {recs[i].get('err', '')}",
                              {"def": did, "tag": tag, "field": fld})
    nonascii = sum(1 for r in drecs for o in r["out"] if any(ord(c) > 127 for c in o["json"]))
    chk.gate(nmsg >= (80 if tier == "selftest" else 600), f"only {nmsg} messages")
    chk.gate(nonascii > 0, "no dumped message contained non-ASCII text")
    chk.add(traces_validated_against_impl=len(recs), messages=nmsg, definitions=len({m[0] for m in meta[:nmsg]}),
            reencoded_after_from_json=sum(1 for r in recs[:nmsg] if r["back"] == "same"), dump_sessions=len(drecs),
            dumped_lines=sum(len(r["lines"]) for r in drecs), evaluations=len(recs), distinct_nontrivial=len({m[0] for m in meta}))
    k = next(i for i, r in enumerate(recs[:nmsg]) if r["back"] == "same")
    chk.sample({"def": meta[k][0], "fields": recs[k]["f"][:3], "back": recs[k]["back"]})
    chk.sample({"dump": meta[nmsg + 4][1], "lines": drecs[4]["lines"][:2]})
    chk.assumptions += ["Python's json module is the independent parser; canonical texts (repr of floats, hex of bytes, ISO of dates and "
                        "times) are produced by the harness, their equality is judged by TLC", "non-finite floats are excepted (JSON cannot carry them)",
                        "dump filter ids are spelled exactly like the definition id (other letter cases are left unconstrained by the property)"]


def run(tier: str, seed: int) -> int:
    chk = Check("C15", tier, seed, LEVEL)
    from .c17 import model as m17
    m17(chk, tier, workdir("C15m"))
    bind(chk, tier, seed)
    return chk.finish()


@contextlib.contextmanager
def mutant_bytes_as_repr():
    import nmea2000.message as MM
    orig = MM.NMEA2000Message.to_json

    def bad(self):
        def default(obj):
            if isinstance(obj, (bytes, bytearray)):
                return repr(bytes(obj))
            if isinstance(obj, timedelta):
                return obj.total_seconds()
            raise TypeError
        return MM.orjson.dumps(self.__dict__, default=default).decode()
    MM.NMEA2000Message.to_json = bad
    try:
        yield
    finally:
        MM.NMEA2000Message.to_json = orig


@contextlib.contextmanager
def mutant_dump_before_id_filter():
    from nmea2000.decoder import NMEA2000Decoder as D
    orig = D._call_decode_function

    def bad(self, *a, **k):
        m = orig(self, *a, **k)
        if m is not None and self.dump_TextIOWrapper is not None and m.PGN == 127250:
            self.dump_TextIOWrapper.write(m.to_json() + "\n")      # written twice / regardless of the filter
        return m
    D._call_decode_function = bad
    try:
        yield
    finally:
        D._call_decode_function = orig


MUTANTS = {"bytes rendered with repr": mutant_bytes_as_repr, "dump written regardless of the filter": mutant_dump_before_id_filter}
