"""C01 — decoded fields match the canboat definition for every PGN and payload.

B1  MC_CodecLaws: coherence of the oracle (N2KBits/N2KCodec laws for all widths <= 10).
B3  every generated decode_pgn_* function is one translated program: boundary/random payloads per
    definition through the public path decode_basic_string(..., already_combined=True); each
    observation (header, per-field metadata, value, raw value | error) is judged by TLC against
    N2KCodec + the database (Trace_Codec, MODE=C01).
"""
from __future__ import annotations

import contextlib
import random

from .. import corpus, project
from ..codec import load_db, validate
from ..common import Check, workdir
from ..tlc import run_tlc

LEVEL = "translation_validation"


def observe(dec, d, raw_def, payload, used=False):
    s = corpus.basic_string(d["pgn"], payload)
    try:
        msg = dec.decode_basic_string(s, already_combined=True)
        if used and msg is not None:           # what an application does with a message before it looks at it again
            msg.to_json()
            str(msg)
            for f_ in msg.fields:
                msg.get_field_by_id(f_.id)
    except Exception as e:                     # noqa: BLE001 - any failure is an observation
        return {"pgn": d["pgn"], "p": list(payload), "ret": "err", "hdr": {"pgn": 0, "id": "", "desc": "", "ttl": -1},
                "f": [], "err": f"{type(e).__name__}: {e}"[:160]}
    if msg is None:
        return {"pgn": d["pgn"], "p": list(payload), "ret": "none", "hdr": {"pgn": 0, "id": "", "desc": "", "ttl": -1},
                "f": [], "err": ""}
    return None, msg


ACCESSOR_CLASSES = {"base", "allzero", "empty0", "emptyff", "zero", "one", "allones", "sentinel", "text0", "text1", "again"}


def via_accessors(msg):
    """a copy of the message whose field values are what the accessors return (ids that occur twice keep their own value:
    get_field_by_id names the first)"""
    import copy
    import dataclasses
    ids = [f.id for f in msg.fields]
    out = copy.copy(msg)
    out.fields = []
    for f in msg.fields:
        v = f.value
        if ids.count(f.id) == 1:
            g = msg.get_field_by_id(f.id)
            if g is not f:
                raise ValueError(f"get_field_by_id({f.id!r}) returned another field")
            if isinstance(v, str) or v is None:
                v = msg.get_field_str_value_by_id(f.id)
            elif isinstance(v, int) and not isinstance(v, bool):
                v = msg.get_field_int_value_by_id(f.id)
        out.fields.append(dataclasses.replace(f, value=v))
    return out


def record(db, raw, tier: str, seed: int, wd=None):
    from nmea2000.decoder import NMEA2000Decoder
    rng = random.Random(seed)
    dec = NMEA2000Decoder()
    wd_ = wd if wd is not None else workdir("C01")
    dump_all = NMEA2000Decoder(dump_to_file=str(wd_ / "dump-all.jsonl"))
    dump_other = NMEA2000Decoder(dump_to_file=str(wd_ / "dump-other.jsonl"), dump_pgns=[59904, "isoAcknowledgement"])
    by_id = {d["id"]: d for d in db["defs"]}
    raw_by_id = {p["Id"]: p for p in raw["PGNs"]}
    n_random = {"quick": 6, "thorough": 120, "selftest": 2}[tier]
    recs, meta = [], []
    for d in db["defs"]:
        first = None
        for tag, payload in list(corpus.payloads_for(d, rng, n_random, pairwise=(tier == "thorough"))) + [("again", None)]:
            if tag == "base":
                first = payload
            if tag == "again":              # the first payload once more, after everything else the decoder has seen
                if first is None:
                    continue
                payload = first
            o = observe(dec, d, raw_by_id[d["id"]], payload)
            if isinstance(o, tuple):
                msg = o[1]
                dd = by_id.get(msg.id)
                o = {"pgn": d["pgn"], "p": list(payload), "ret": "msg", "err": ""}
                o.update(project.pmsg(msg, dd, raw_by_id.get(msg.id)))
            recs.append(o)
            meta.append((d["id"], tag))
            # the field values as the message's accessors hand them out (get_field_by_id / get_field_str_value_by_id /
            # get_field_int_value_by_id), for the payload classes where "empty", "zero" and "absent" lie next to each other
            if recs[-1]["ret"] == "msg" and tag.split(":")[-1] in ACCESSOR_CLASSES:
                o2 = observe(dec, d, raw_by_id[d["id"]], payload)
                if isinstance(o2, tuple):
                    try:
                        shadow = via_accessors(o2[1])
                        o2 = {"pgn": d["pgn"], "p": list(payload), "ret": "msg", "err": ""}
                        o2.update(project.pmsg(shadow, by_id.get(shadow.id), raw_by_id.get(shadow.id)))
                    except Exception as e:       # noqa: BLE001
                        o2 = {"pgn": d["pgn"], "p": list(payload), "ret": "err", "hdr": {"pgn": 0, "id": "", "desc": "", "ttl": -1},
                              "f": [], "err": f"accessor: {type(e).__name__}: {e}"[:160]}
                    recs.append(o2)
                    meta.append((d["id"], f"{tag}/accessors"))
            # the other ways a message is obtained: from a decoder that also writes a dump file (all messages / a filter that
            # names another PGN), and looked at again after it has been serialised and queried once
            if tag == "again":
                for vtag, vdec, used in (("dump", dump_all, False), ("dump-other", dump_other, False), ("used", dec, True)):
                    o = observe(vdec, d, raw_by_id[d["id"]], payload, used)
                    if isinstance(o, tuple):
                        msg = o[1]
                        o = {"pgn": d["pgn"], "p": list(payload), "ret": "msg", "err": ""}
                        o.update(project.pmsg(msg, by_id.get(msg.id), raw_by_id.get(msg.id)))
                    recs.append(o)
                    meta.append((d["id"], f"again/{vtag}"))
    dump_all.close()
    dump_other.close()
    # fast-packet definitions frame by frame through ONE decoder: a message the codec refuses (a field one step beyond its
    # range), then - under the same sequence counter, and under the next one - a message it accepts.  What comes back for
    # the accepted payloads is judged like any other observation; under the repeated counter nothing need come back (the
    # reassembly may take the frames for repeats), but whatever does must be that payload's message.
    from .. import fastpacket as fp
    fdec = NMEA2000Decoder()
    n_after = 0
    for d in [x for x in db["defs"] if x["decodable"] and x["fast"] == "fast" and x["static"]][:: (1 if tier == "thorough" else 2)]:
        bad = next((corpus.build_payload(d, {i: c}) for i, f in enumerate(d["fields"]) if f["off"] >= 0 and f["kind"] == "num"
                    for name, c in corpus.boundary_codes(f) if name in ("hi+1", "sentinel-1")), None)
        if bad is None:
            continue
        good = corpus.build_payload(d, {}, rng)

        def frames_in(payload, q, src=21):
            out, pos, i = None, 0, 0
            while pos < len(payload) or i == 0:
                cap_ = 6 if i == 0 else 7
                out = fdec.decode_tcp(fp.ebyte_packet(d["pgn"], src, 255, 3, fp.can_data(q, i, len(payload), list(payload[pos:pos + cap_]))))
                pos += cap_
                i += 1
            return out
        q = d["idx"] % 8
        try:
            frames_in(bad, q)
            refused = False
        except Exception:                      # noqa: BLE001
            refused = True
        if not refused:
            continue
        for tag2, qq in (("after-refusal/same-counter", q), ("after-refusal/next-counter", (q + 1) % 8)):
            try:
                m2 = frames_in(good, qq)
            except Exception as e:             # noqa: BLE001
                m2 = e
            if isinstance(m2, Exception) or m2 is None:
                if tag2.endswith("same-counter"):
                    continue
                o = {"pgn": d["pgn"], "p": list(good), "ret": "none" if m2 is None else "err",
                     "hdr": {"pgn": 0, "id": "", "desc": "", "ttl": -1}, "f": [], "err": "" if m2 is None else f"{type(m2).__name__}: {m2}"[:160]}
            else:
                o = {"pgn": d["pgn"], "p": list(good), "ret": "msg", "err": ""}
                o.update(project.pmsg(m2, by_id.get(m2.id), raw_by_id.get(m2.id)))
            recs.append(o)
            meta.append((d["id"], tag2))
            n_after += 1
    AFTER_REFUSAL[0] = n_after
    # every key of every lookup / bit-lookup table once (the tables are part of the translated database)
    n_tab = 0
    for d, tag, payload in corpus.table_sweep(db, lambda d: d["decodable"]):
        o = observe(dec, d, raw_by_id[d["id"]], payload)
        if isinstance(o, tuple):
            msg = o[1]
            o = {"pgn": d["pgn"], "p": list(payload), "ret": "msg", "err": ""}
            o.update(project.pmsg(msg, by_id.get(msg.id), raw_by_id.get(msg.id)))
        recs.append(o)
        meta.append((d["id"], tag))
        n_tab += 1
    TABLE_SWEEP[0] = n_tab
    return recs, meta


TABLE_SWEEP = [0]
AFTER_REFUSAL = [0]


def model(chk: Check, tier: str):
    cfg = "MC_CodecLaws_thorough.cfg" if tier == "thorough" else "MC_CodecLaws_quick.cfg"
    r = run_tlc("MC_CodecLaws", cfg, name="MC_CodecLaws", timeout=3000)
    for inv in r.violated:
        chk.violation(f"spec/{inv}", f"TLC: {inv} violated in MC_CodecLaws", {"tlc": r.error_text()})
    chk.gate(r.distinct > 1000, f"MC_CodecLaws explored only {r.distinct} states")
    chk.add(states=r.distinct, transitions=r.generated)


def key_of(db, rec, meta, v) -> str:
    """canonical finding key: clause / definition / field id (not the random data)"""
    did, tag = meta
    if rec["ret"] == "msg":
        d = next((x for x in db["defs"] if x["id"] == rec["hdr"]["id"]), None)
        fid = d["fields"][v["f"] - 1]["id"] if d and v["f"] > 0 else "-"
        return f"{v['c']}/{rec['hdr']['id']}/{fid}"
    if ":" in tag and "+" not in tag:         # single-field boundary payload: field id + class
        i, cls = tag.split(":")
        d = next(x for x in db["defs"] if x["id"] == did)
        return f"{v['c']}/{did}/{d['fields'][int(i) - 1]['id']}:{cls}"
    return f"{v['c']}/{did}/{'pair' if '+' in tag else tag.rstrip('0123456789')}"


def bind(chk: Check, tier: str, seed: int):
    wd = workdir("C01")
    db, raw = load_db(wd)
    recs, meta = record(db, raw, tier, seed, wd)
    bad = validate("C01", recs, wd)
    returned = sum(1 for r in recs if r["ret"] == "msg")
    progs = {r["hdr"]["id"] for r in recs if r["ret"] == "msg"}
    chk.gate(returned > len(recs) // 3, f"only {returned} of {len(recs)} payloads decoded")
    chk.gate(len(progs) >= 300 or tier == "selftest", f"only {len(progs)} decoders returned a message")
    for i, vs in bad:
        for v in vs:
            chk.violation(key_of(db, recs[i], meta[i], v),
                          f"{meta[i][0]} payload {bytes(recs[i]['p']).hex()} ({meta[i][1]}): {v['c']}"
                          + (f" [{recs[i]['err']}]" if recs[i]["err"] else ""),
                          {"def": meta[i][0], "tag": meta[i][1], "payload": bytes(recs[i]["p"]).hex(), "verdict": v,
                           "observed": recs[i]["f"][v["f"] - 1] if v["f"] > 0 and recs[i]["f"] else None})
    chk.add(lookup_table_entries_swept=TABLE_SWEEP[0], frame_route_observations_after_a_refused_message=AFTER_REFUSAL[0])
    chk.add(programs=len(progs), disagreements_checked=len(recs), records=len(recs), returned=returned,
            definitions_in_db=len(db["defs"]), traces_validated_against_impl=len(recs))
    for i in (0, len(recs) // 2):
        chk.sample({"def": meta[i][0], "tag": meta[i][1], "payload": bytes(recs[i]["p"]).hex(), "ret": recs[i]["ret"],
                    "first_field": recs[i]["f"][0] if recs[i]["f"] else None})
    chk.assumptions += ["database literals are read exactly (decimal strings -> Fraction)",
                        "float tolerance for 'exact multiple of the resolution': 2^-50 relative",
                        "definitions with a field type the generator rejects are only required to fail cleanly"]


def run(tier: str, seed: int) -> int:
    chk = Check("C01", tier, seed, LEVEL)
    model(chk, tier)
    bind(chk, tier, seed)
    return chk.finish()


# ---- in-memory mutants for --selftest (never written to /repo) -------------
@contextlib.contextmanager
def mutant_sentinel_ge():
    import nmea2000.pgns as P
    orig = P.decode_number

    def bad(data_raw, bit_offset, bit_length, signed, resolution, mn, mx, offset=0):
        raw = (data_raw >> bit_offset) & ((1 << bit_length) - 1)
        if not signed and bit_length >= 4 and raw >= (1 << bit_length) - 2:
            return None                   # 'error' code swallowed as not-available
        return orig(data_raw, bit_offset, bit_length, signed, resolution, mn, mx, offset)
    P.decode_number = bad
    try:
        yield
    finally:
        P.decode_number = orig


@contextlib.contextmanager
def mutant_shift_one_field():
    import inspect
    import nmea2000.decoder as D
    import nmea2000.pgns as P
    src = inspect.getsource(P.decode_pgn_127250).replace("running_bit_offset = 24", "running_bit_offset = 25")
    ns = dict(P.__dict__)
    exec(src, ns)
    orig = D.__dict__["decode_pgn_127250"]
    D.__dict__["decode_pgn_127250"] = ns["decode_pgn_127250"]
    try:
        yield
    finally:
        D.__dict__["decode_pgn_127250"] = orig


@contextlib.contextmanager
def mutant_lookup_renamed():
    import nmea2000.pgns as P
    t = P.master_dict["DIRECTION_REFERENCE"]
    orig = t[1]
    t[1] = orig + "?"
    try:
        yield
    finally:
        t[1] = orig


@contextlib.contextmanager
def mutant_indirect_key_swapped():
    import nmea2000.pgns as P
    t = P.master_indirect_lookup_dict["DEVICE_FUNCTION"]
    orig = dict(t)
    t.clear()
    t.update({"_".join(reversed(k.split("_"))): v for k, v in orig.items()})     # function_class instead of class_function
    try:
        yield
    finally:
        t.clear()
        t.update(orig)


MUTANTS = {"sentinel->=": mutant_sentinel_ge, "bit-offset+1 in one decoder": mutant_shift_one_field,
           "lookup entry renamed": mutant_lookup_renamed, "indirect lookup key halves swapped": mutant_indirect_key_swapped}
