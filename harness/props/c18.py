"""C18 — preferred-unit conversion rewrites only value and unit of matching quantities.

B1  MC_RecordLaws (thin by nature): ConvLaw (the conversion table of the specification is a partial
    function of quantity and requested unit), FrameLaw (the per-field clause accepts an untouched
    field, rejects a changed attribute / raw value / unit label).
B3  every definition with a field that has a physical quantity: payloads (neutral, range ends, absent,
    random) x preference maps over the four convertible quantities (each recognised unit in several
    letter cases, unrecognised units, quantities without conversions, combinations); the same payload
    is decoded with and without the preferences and TLC judges every field pair: all attributes and
    the raw value untouched, unit label exactly the specification's, absent stays absent, unrelated
    fields identical, header identical.  The numeric clause |value' - (a*value + b)| <= grid/2 is
    evaluated by the harness in exact rational arithmetic with the constants TLC exports from the
    specification (TLC has 32-bit integers) and handed to TLC as a fact per field.
"""
from __future__ import annotations

import contextlib
import json
import random
from fractions import Fraction

from .. import corpus, project
from ..codec import load_db, validate
from ..common import SPEC, Check, workdir
from ..gen_db import frac, load_raw
from ..tlc import run_tlc, run_trace_tlc

LEVEL = "model_checking"
PI_LO, PI_HI = Fraction(314159265358979, 10 ** 14), Fraction(314159265358980, 10 ** 14)
TOL = Fraction(1, 2 ** 40)


def model(chk: Check, tier: str, wd):
    from .c17 import model as m17
    m17(chk, tier, wd)


def conversions(wd):
    """the table as the specification states it (exported by TLC)"""
    (wd / "none.json").write_text("[]")
    out = wd / "conv-out.json"
    run_trace_tlc("Trace_Codec", "Trace_Codec.cfg", wd / "none.json", out, name="Trace_Codec-conv",
                  extra_env={"DB_FILE": str(SPEC / "toy_db.json"), "MODE": "C18"})
    return json.loads((wd / "conv-out.json.conversions").read_text())


def num_ok(cv: dict, x, y) -> bool:
    if not isinstance(x, (int, float)) or not isinstance(y, (int, float)) or x != x or y != y:
        return False
    X, Y = Fraction(x), Fraction(y)
    b = Fraction(cv["bNum"], cv["bDen"])
    if cv["aDen"] == 0:
        lo, hi = sorted([X * cv["aNum"] / PI_HI + b, X * cv["aNum"] / PI_LO + b])
    else:
        lo = hi = X * Fraction(cv["aNum"], cv["aDen"]) + b
    slack = TOL * max(1, abs(hi), abs(lo))
    if cv["gNum"] == 0:
        return lo - slack <= Y <= hi + slack
    grid = Fraction(cv["gNum"], cv["gDen"])
    on_grid = abs(Y / grid - round(Y / grid)) <= Fraction(1, 10 ** 6)
    return on_grid and lo - grid / 2 - slack <= Y <= hi + grid / 2 + slack


# texts that are pieces or extensions of a unit the library knows: not units, so nothing may change
NSEQ = [0]
NEAR_MISSES = [{"ANGLE": ""}, {"ANGLE": "d"}, {"ANGLE": "de"}, {"ANGLE": "eg"}, {"ANGLE": "degrees"}, {"SPEED": ""}, {"SPEED": "k"},
               {"SPEED": "kt"}, {"SPEED": "ts"}, {"SPEED": "knots"}, {"TEMPERATURE": ""}, {"TEMPERATURE": "cc"}, {"TEMPERATURE": "fahrenheit"},
               {"PRESSURE": ""}, {"PRESSURE": "ba"}, {"PRESSURE": "ps"}, {"PRESSURE": "bars"}, {"PRESSURE": "psig"}]
PREFS = [{"TEMPERATURE": "c"}, {"TEMPERATURE": "C"}, {"TEMPERATURE": "F"}, {"TEMPERATURE": "f"}, {"PRESSURE": "bar"}, {"PRESSURE": "Bar"},
         {"PRESSURE": "PSI"}, {"PRESSURE": "psi"}, {"ANGLE": "deg"}, {"ANGLE": "DEG"}, {"SPEED": "kts"}, {"SPEED": "Kts"},
         {"TEMPERATURE": "kelvin"}, {"SPEED": "mph"}, {"ANGLE": "rad"}, {"LENGTH": "ft"}, {"TEMPERATURE": "c", "SPEED": "kts"},
         {"TEMPERATURE": "f", "PRESSURE": "psi", "ANGLE": "deg", "SPEED": "kts"}, {"DISTANCE": "nm", "ANGLE": "Deg"}]


def bind(chk: Check, tier: str, seed: int):
    from nmea2000.consts import PhysicalQuantities
    from nmea2000.decoder import NMEA2000Decoder
    wd = workdir("C18")
    db, _ = load_db(wd)
    raw_by_id = {p["Id"]: p for p in load_raw()["PGNs"]}
    conv = conversions(wd)
    rng = random.Random(seed)
    plain_dec = NMEA2000Decoder()
    decs = {}
    for pm in PREFS:
        decs[json.dumps(pm, sort_keys=True)] = NMEA2000Decoder(preferred_units={PhysicalQuantities[k]: v for k, v in pm.items()})
    recs, meta = [], []
    defs = [d for d in db["defs"] if d["decodable"] and any(f["qty"] for f in d["fields"])]      # (definitions with text fields included)
    if tier == "selftest":
        defs = defs[::3]
    convertible = {c["qty"] for c in conv}
    n_conv = 0
    PQ_NAMES = {q.name for q in PhysicalQuantities}
    UNIT_TEXTS = ["c", "F", "bar", "PSI", "deg", "kts"]
    n_cross_maps: set = set()
    for d in defs:
        qtys = {f["qty"] for f in d["fields"]}
        payloads = [("base", corpus.build_payload(d, {}))]
        for i, f in enumerate(d["fields"]):
            if f["qty"] in convertible and f["off"] >= 0 and f["kind"] == "num":
                for name, c in corpus.boundary_codes(f):
                    if name in ("lo", "hi", "mid", "sentinel", "minus1", "lo+1"):
                        payloads.append((f"{i+1}:{name}", corpus.build_payload(d, {i: c})))
        # values whose converted number lies just beside a rounding boundary of the conversion's grid (x.495 / x.505
        # of a grid step): a second rounding on the way, or a wrong rounding mode, shows only there
        for i, f in enumerate(d["fields"]):
            if f["qty"] in convertible and f["off"] >= 0 and f["kind"] == "num" and f["resDen"] > 0:
                res = Fraction(f["resNum"], f["resDen"])
                off = frac(raw_by_id[d["id"]]["Fields"][i].get("Offset", 0))
                lo_t, hi_t = corpus.sm_int(f["lo"]), corpus.sm_int(f["hi"])
                for cv in conv:
                    if cv["qty"] != f["qty"] or cv["gNum"] == 0:
                        continue
                    grid = Fraction(cv["gNum"], cv["gDen"])
                    a = Fraction(cv["aNum"], cv["aDen"]) if cv["aDen"] else Fraction(cv["aNum"]) / PI_LO
                    b = Fraction(cv["bNum"], cv["bDen"])
                    y_lo, y_hi = sorted(((lo_t * res + off) * a + b, (hi_t * res + off) * a + b))
                    ks = range(int(y_lo / grid) + 1, int(y_hi / grid))
                    if len(ks) < 3:
                        continue
                    for k in rng.sample(list(ks), min(len(ks), {"quick": 8, "thorough": 30, "selftest": 2}[tier])):
                        for eps in (Fraction(-1, 100), Fraction(1, 100), Fraction(-1, 250), Fraction(1, 250), Fraction(-1, 1000), Fraction(1, 1000)):
                            x = ((k + Fraction(1, 2) + eps) * grid - b) / a
                            t = round((x - off) / res)
                            if lo_t <= t <= hi_t:
                                c = corpus.ticks_to_code(f, t)
                                if c is not None:
                                    payloads.append((f"{i+1}:tie{cv['want']}", corpus.build_payload(d, {i: c})))
        for k in range({"quick": 2, "thorough": 12, "selftest": 1}[tier]):
            payloads.append((f"rand{k}", corpus.build_payload(d, {}, rng)))
        for tag, payload in payloads:
            s = corpus.basic_string(d["pgn"], payload, src=5, dst=255, prio=3)
            try:
                m0 = plain_dec.decode_basic_string(s, already_combined=True)
            except Exception:              # noqa: BLE001
                continue
            if m0 is None or m0.id != d["id"]:
                continue
            rel = [pm for pm in PREFS if set(pm) & qtys] or PREFS[:1]
            extra = [pm for pm in PREFS if not (set(pm) & qtys)]
            # a unit text the library knows, asked for a quantity it does not belong to (bar for a temperature, C for
            # an electrical charge, deg for a latitude): an unrecognised preference, which must change nothing
            cross = []
            if tag == "base" or tag.startswith("rand0"):
                cross = [{q: u} for q in sorted(qtys) if q in PQ_NAMES for u in UNIT_TEXTS
                         if not any(c["qty"] == q and c["want"] == u.lower() for c in conv)]
                if tier != "thorough":
                    cross = rng.sample(cross, min(len(cross), 6))
            if ":tie" in tag:          # a near-tie input matters under the conversion it was computed for
                want = tag.split(":tie", 1)[1]
                rel = [pm for pm in rel if want in (v.lower() for v in pm.values())]
                extra = []
            near = [pm for pm in NEAR_MISSES if set(pm) & qtys] if (tag == "base" or tag.startswith("rand0") or tag.endswith(":mid")) else []
            plan = [(pm, "") for pm in rel + (rng.sample(extra, 1) if extra else []) + cross + near]
            # the same preferences in a decoder that also writes a dump file: of everything, or of other PGNs only
            if tag == "base":
                plan += [(pm, how) for pm in rel[::2] for how in ("dump-all", "dump-other")]
                # ... and through the frame routes (EByte packets, fast-packet messages frame by frame; plain text as the
                # Actisense and Yacht Devices routes deliver it)
                plan += [(pm, how) for pm in rel[1::2] for how in (("frames",) if d["fast"] in ("fast", "single") and (d["fast"] == "fast" or len(payload) <= 8) else ())]
            for pm, how in plan:
                key = json.dumps(pm, sort_keys=True) + how
                if key not in decs:
                    kw = {} if how in ("", "frames") else dict(dump_to_file=str(wd / f"dump-{len(decs)}.jsonl"),
                                                               dump_pgns=[] if how == "dump-all" else [59904, "isoAcknowledgement"])
                    decs[key] = NMEA2000Decoder(preferred_units={PhysicalQuantities[k]: v for k, v in pm.items()}, **kw)
                    n_cross_maps.add(key)
                dec = decs[key]
                try:
                    if how == "frames":
                        from .. import fastpacket as fp_
                        NSEQ[0] = (NSEQ[0] + 1) % 8
                        if d["fast"] == "single":
                            frs = [bytes(payload)]
                        else:
                            frs, pos_, i_ = [], 0, 0
                            while pos_ < len(payload) or i_ == 0:
                                cap_ = 6 if i_ == 0 else 7
                                frs.append(fp_.can_data(NSEQ[0], i_, len(payload), list(payload[pos_:pos_ + cap_])))
                                pos_ += cap_
                                i_ += 1
                        m1 = None
                        for fr_ in frs:
                            m1 = dec.decode_tcp(fp_.ebyte_packet(d["pgn"], 5, 255, 3, fr_))
                    else:
                        m1 = dec.decode_basic_string(s, already_combined=True)
                except Exception as e:     # noqa: BLE001
                    chk.violation(f"conversion-raised/{d['id']}", f"{d['id']} {bytes(payload).hex()} with {pm}: {type(e).__name__}: {e}")
                    continue
                if m1 is None:
                    chk.violation(f"conversion-dropped-message/{d['id']}", f"{d['id']} {bytes(payload).hex()} with {pm}: None")
                    continue
                prefs = {k: v.lower() for k, v in pm.items()}
                p0 = project.pmsg(m0, d, raw_by_id[d["id"]])
                p1 = project.pmsg(m1, d, raw_by_id[d["id"]])
                f0, f1 = p0["f"], p1["f"]
                for a, b_, fa, fb in zip(f0, f1, m0.fields, m1.fields):
                    cvs = [c for c in conv if c["qty"] == a["qty"] and c["want"] == prefs.get(a["qty"], "")]
                    b_["num"] = num_ok(cvs[0], fa.value, fb.value) if cvs and fa.value is not None and fb.value is not None else True
                    a["num"] = True
                    if cvs:
                        n_conv += 1
                        # the converted value is not a multiple of the field's resolution: compare the projections of
                        # the unconverted ones only for fields without conversion (TLC: cv = <<>>)
                recs.append({"prefs": prefs, "plain": f0, "pref": f1,
                             "hdrSame": (p0["hdr"], m0.source, m0.destination, m0.priority) == (p1["hdr"], m1.source, m1.destination, m1.priority)})
                meta.append((d["id"], tag + ("/" + how if how else ""), pm))
    bad = validate("C18", recs, wd, shards=12)
    for i, vs in bad:
        did, tag, pm = meta[i]
        d = next(x for x in db["defs"] if x["id"] == did)
        for v in vs:
            f = d["fields"][v["f"] - 1] if v["f"] > 0 else None
            qty = f["qty"] if f else "-"
            want = {k: x.lower() for k, x in pm.items()}.get(qty, "")
            chk.violation(f"{v['c']}/{qty}->{want or 'none'}" + ("" if v["c"] in ("converted-value-wrong", "unit-label", "value-lost", "absent-value-became-a-number")
                                                                    else f"/{did}/{f['id'] if f else '-'}"),
                          f"{did} field {f['id'] if f else '-'} ({qty}), preferences {pm}, payload class {tag}: {v['c']}: "
                          f"{recs[i]['plain'][v['f'] - 1]['unit'] if f else ''} -> {recs[i]['pref'][v['f'] - 1]['unit'] if f else ''}",
                          {"def": did, "prefs": pm, "plain": recs[i]["plain"][v["f"] - 1] if f else None,
                           "pref": recs[i]["pref"][v["f"] - 1] if f else None})
    chk.gate(n_conv > 500 or tier == "selftest", f"only {n_conv} converted fields were observed")
    chk.add(traces_validated_against_impl=len(recs), records=len(recs), converted_fields=n_conv, definitions=len(defs),
            evaluations=len(recs), distinct_nontrivial=len({m[0] for m in meta}), conversion_table=conv)
    k = next(i for i, m in enumerate(meta) if "SPEED" in m[2] and any(f["qty"] == "SPEED" for f in next(x for x in db["defs"] if x["id"] == m[0])["fields"]))
    chk.sample({"def": meta[k][0], "prefs": meta[k][2], "plain": [(f["id"], f["unit"]) for f in recs[k]["plain"]], "pref": [(f["id"], f["unit"]) for f in recs[k]["pref"]]})
    chk.assumptions += ["the numeric clause is evaluated by the harness with exact rationals on the constants exported by TLC "
                        "(pi as the enclosure 3.14159265358979..3.14159265358980), tolerance 2^-40 relative",
                        "preference texts are lower-cased by the harness before TLC looks them up (the rule 'any letter case')"]


def run(tier: str, seed: int) -> int:
    chk = Check("C18", tier, seed, LEVEL)
    wd = workdir("C18m")
    model(chk, tier, wd)
    bind(chk, tier, seed)
    return chk.finish()


@contextlib.contextmanager
def mutant_raw_converted_too():
    from nmea2000.message import NMEA2000Message as M
    orig = M.apply_preferred_units

    def bad(self, prefs):
        before = [f.value for f in self.fields]
        orig(self, prefs)
        for f, b in zip(self.fields, before):
            if f.value != b and isinstance(f.raw_value, (int, float)):
                f.raw_value = f.value
    M.apply_preferred_units = bad
    try:
        yield
    finally:
        M.apply_preferred_units = orig


@contextlib.contextmanager
def mutant_temperature_dispatch_everywhere():
    import nmea2000.message as MM
    orig = MM.NMEA2000Message.apply_preferred_units

    def bad(self, prefs):
        orig(self, prefs)
        want = prefs.get(MM.PhysicalQuantities.TEMPERATURE)
        if want == "c":
            for f in self.fields:
                if f.physical_quantities == MM.PhysicalQuantities.PRESSURE and isinstance(f.value, (int, float)):
                    f.value = MM.kelvin_to_celsius(f.value)
    MM.NMEA2000Message.apply_preferred_units = bad
    try:
        yield
    finally:
        MM.NMEA2000Message.apply_preferred_units = orig


MUTANTS = {"raw value converted too": mutant_raw_converted_too, "temperature conversion applied to pressures": mutant_temperature_dispatch_everywhere}
