"""C07 — the same CAN frame decodes identically through every input format.

B1  MC_Wire (shared with C06): Parse o Render = identity for the binary formats, line structure of
    the text formats, checksum and re-framing laws, over data alphabets containing every delimiter.
B2  the specification (Trace_Wire MODE=EMIT: N2KCanId!Build, N2KFastPacket segmentation, N2KWire
    renderers) renders every chosen message in nine ways: EByte, USB, Yacht Devices (R upper case /
    T lower case), canboat plain frame by frame (two timestamp forms, both hex cases), Actisense
    assembled (two timestamps, both cases), canboat plain assembled; the harness feeds the
    renderings to the five public decode_* entry points of fresh decoders.
B3  the projected messages are judged by TLC (MODE=C07): every rendering decodes, nothing is
    returned before the last frame, and all nine projections are equal.
"""
from __future__ import annotations

import contextlib
import random

from ..codec import load_db
from ..common import Check, workdir
from ..gen_db import load_raw
from ..tlc import run_tlc
from ..wire import pick_messages, proj, run_wire

LEVEL = "model_checking"
FORMATS = ["ebyte", "usb", "ydRU", "ydTL", "plainF1", "plainF2", "actiU", "actiL", "plainM"]


def model(chk: Check, tier: str):
    r = run_tlc("MC_Wire", "MC_Wire.cfg", name="MC_Wire", timeout=1800)
    for inv in r.violated:
        chk.violation(f"spec/{inv}", f"TLC: {inv} violated in MC_Wire", {"tlc": r.error_text(60)})
    chk.gate(r.distinct > 1000, f"MC_Wire explored only {r.distinct} states")
    chk.add(states=r.distinct, transitions=r.generated)


def feed(fmt: str, packets, dec=None) -> dict:
    from nmea2000.decoder import NMEA2000Decoder
    dec = dec or NMEA2000Decoder()
    outs = []
    for p in packets:
        b = bytes(p)
        try:
            if fmt == "ebyte":
                outs.append(dec.decode_tcp(b))
            elif fmt == "usb":
                outs.append(dec.decode_usb(b))
            elif fmt in ("ydRU", "ydTL"):
                outs.append(dec.decode_yacht_devices_string(b.decode().strip()))
            elif fmt in ("plainF1", "plainF2"):
                outs.append(dec.decode_basic_string(b.decode()))
            elif fmt in ("actiU", "actiL"):
                outs.append(dec.decode_actisense_string(b.decode()))
            else:
                outs.append(dec.decode_basic_string(b.decode(), already_combined=True))
        except Exception as e:             # noqa: BLE001
            return {"ret": "err", "early": False, "msg": {}, "err": f"{type(e).__name__}: {e}"[:120], "_m": None}
    early = any(o is not None for o in outs[:-1])
    last = outs[-1] if outs else None
    return {"ret": "none" if last is None else "msg", "early": early, "msg": {}, "err": "", "_m": last}


def bind(chk: Check, tier: str, seed: int):
    wd = workdir("C07")
    db, _ = load_db(wd)
    raw_by_id = {p["Id"]: p for p in load_raw()["PGNs"]}
    by_id = {d["id"]: d for d in db["defs"]}
    rng = random.Random(seed)
    per_def = {"quick": 2, "thorough": 12, "selftest": 1}[tier]
    picked = pick_messages(db, rng, per_def, lambda d: d["decodable"], tier)      # (definitions with text fields included)
    if tier == "selftest":
        picked = picked[::3]
    chk.gate(len(picked) >= (60 if tier == "selftest" else 250), f"only {len(picked)} messages picked")
    msgs = [m for m, _, _ in picked]
    emitted = run_wire("EMIT", msgs, wd, "emit")
    chk.gate(len(emitted) == len(msgs), "EMIT did not render every message")
    recs = []
    for (m, d, _), em in zip(picked, emitted):
        obs = {}
        for f in FORMATS:
            o = feed(f, em[f])
            if o["_m"] is not None:
                mm = o["_m"]
                o["msg"] = proj(mm, by_id.get(mm.id), raw_by_id.get(mm.id))
            del o["_m"]
            obs[f] = o
        recs.append({"obs": obs})
    # history pass: one long-lived decoder per format; every message is sent twice in a row - the same frames under
    # the same sequence counter on the same stream - and both deliveries must equal the pre-assembled message
    n_fresh = len(recs)
    from nmea2000.decoder import NMEA2000Decoder
    live = {f: NMEA2000Decoder() for f in FORMATS}
    hist = [x for x in zip(picked, emitted) if x[0][0]["fast"]][::2] + [x for x in zip(picked, emitted) if not x[0][0]["fast"]][::6]
    hpicked = []
    for (m, d, _), em in hist:
        for rep in (1, 2):
            obs = {}
            for f in FORMATS:
                o = feed(f, em[f], live[f])
                if o["_m"] is not None:
                    mm = o["_m"]
                    o["msg"] = proj(mm, by_id.get(mm.id), raw_by_id.get(mm.id))
                del o["_m"]
                obs[f] = o
            recs.append({"obs": obs})
            hpicked.append((m, d, rep))
    emitted_all = list(emitted) + [em for (_, em) in hist for _ in (1, 2)]
    # ONE decoder gets every rendering of every message, in an order that changes from message to message: whole messages
    # before frames, frames before whole messages, binary between text (a bridge that reads several gateways)
    mixed = NMEA2000Decoder()
    multi_pgns = {p for p in {x["pgn"] for x in db["defs"]} if sum(1 for x in db["defs"] if x["pgn"] == p) > 1}
    mx = hist[:: max(1, len(hist) // 60)] + [x for x in zip(picked, emitted) if x[0][0]["pgn"] in multi_pgns][:: (4 if tier != "thorough" else 1)]
    for j, ((m, d, _), em) in enumerate(mx):
        obs = {}
        # ... after a payload of the same PGN number whose first bytes name no manufacturer any definition is for (returned as
        # the PGN's fallback definition, or not at all - and reported as unsupported once)
        if len(m["payload"]) >= 3:
            stranger = bytes([0x00, 0x00]) + bytes(m["payload"][2:])
            try:
                line = "2020-01-01-00:00:00.000,%d,%d,%d,%d,%d,%s" % (m["prio"], m["pgn"], m["src"], m["dst"], len(stranger),
                                                                      ",".join("%02x" % b for b in stranger))
                if j % 2:
                    mixed.decode_basic_string(line, already_combined=True)
                elif len(stranger) <= 8 and not m["fast"]:      # (a single frame as such; a fast-packet PGN's message only pre-assembled)
                    mixed.decode_basic_string(line)
                else:
                    mixed.decode_actisense_string("A000001.000 %05X %05X %s" % ((m["src"] << 12) | (m["dst"] << 4) | m["prio"], m["pgn"], stranger.hex().upper()))
            except Exception:              # noqa: BLE001
                pass
        order = FORMATS[j % len(FORMATS):] + FORMATS[:j % len(FORMATS)]
        if j % 2:
            order = order[::-1]
        for f in order:
            o = feed(f, em[f], mixed)
            if o["_m"] is not None:
                mm = o["_m"]
                o["msg"] = proj(mm, by_id.get(mm.id), raw_by_id.get(mm.id))
            del o["_m"]
            obs[f] = o
        recs.append({"obs": {f: obs[f] for f in FORMATS}})
        hpicked.append((m, d, 4))
    emitted_all += [em for (_, em) in mx]
    # decoders with network mapping on whose discovery window has passed (the clock the decoder reads is 11 minutes ahead of their
    # creation): sources that never claimed are returned, whatever time stamp the format carries in its text
    import datetime as _dt
    import nmea2000.decoder as D
    from ..decoderrun import Clock
    Clock.offset = _dt.timedelta(0)
    orig_dt, D.datetime = D.datetime, Clock
    try:
        mapped = {f: NMEA2000Decoder(build_network_map=True) for f in FORMATS}
        Clock.offset = _dt.timedelta(minutes=11)
        nm = hist[:: max(1, len(hist) // 40)]
        for (m, d, _), em in nm:
            obs = {}
            for f in FORMATS:
                o = feed(f, em[f], mapped[f])
                if o["_m"] is not None:
                    mm = o["_m"]
                    o["msg"] = proj(mm, by_id.get(mm.id), raw_by_id.get(mm.id))
                del o["_m"]
                obs[f] = o
            recs.append({"obs": obs})
            hpicked.append((m, d, 3))
        emitted_all += [em for (_, em) in nm]
    finally:
        D.datetime = orig_dt
        Clock.offset = _dt.timedelta(0)
    v = run_wire("C07", recs, wd, "c07")
    chk.gate(v["n"] == len(recs), "C07 verdicts incomplete")
    chk.add(history_pass_records=len(recs) - n_fresh)
    picked = list(picked) + [(m, d, rep) for m, d, rep in hpicked]
    emitted = emitted_all
    for b in v["bad"]:
        m, d, _ = picked[b["k"] - 1]
        fmt = b["v"]["f"]
        fam = {"ydRU": "yd", "ydTL": "yd", "plainF1": "plain-frames", "plainF2": "plain-frames", "actiU": "actisense",
               "actiL": "actisense"}.get(fmt, fmt)
        kind = "fast" if m["fast"] else "single"
        short = "/short" if m["fast"] and len(m["payload"]) <= 8 else ""
        hist_tag = ({3: "/network-map", 4: "/one-decoder-all-formats"}.get(picked[b["k"] - 1][2], "/sent-again")) if b["k"] > n_fresh else ""
        chk.violation(f"{b['v']['c']}/{fam}/{kind}{short}{hist_tag}",
                      f"{d['id']} (PGN {m['pgn']}, {len(m['payload'])} bytes, {kind}) through {fmt}: {b['v']['c']} "
                      f"{recs[b['k'] - 1]['obs'][fmt]['err']}",
                      {"message": m, "format": fmt, "rendering": [bytes(x).hex() for x in emitted[b["k"] - 1][fmt]][:4]})
    nfast = sum(1 for m in msgs if m["fast"])
    chk.add(traces_validated_against_impl=len(recs) * len(FORMATS), messages=n_fresh, fast_messages=nfast,
            short_fast_messages=sum(1 for m in msgs if m["fast"] and len(m["payload"]) <= 8),
            definitions=len({d["id"] for _, d, _ in picked}), formats=FORMATS)
    i = next(i for i, m in enumerate(msgs) if m["fast"])
    chk.sample({"message": msgs[i], "ebyte": [bytes(x).hex() for x in emitted[i]["ebyte"]],
                "ydTL": [bytes(x).decode() for x in emitted[i]["ydTL"]], "actiL": bytes(emitted[i]["actiL"][0]).decode()})
    chk.assumptions += ["messages are chosen among payloads the decoder accepts; content correctness is C01's business",
                        "timestamps are not part of the comparison"]


def run(tier: str, seed: int) -> int:
    chk = Check("C07", tier, seed, LEVEL)
    model(chk, tier)
    bind(chk, tier, seed)
    return chk.finish()


@contextlib.contextmanager
def mutant_usb_big_endian_id():
    from nmea2000.decoder import NMEA2000Decoder as D
    orig = D.decode_usb

    def bad(self, packet):
        p = bytearray(packet)
        p[5:9] = p[5:9][::-1]
        p[19] = sum(p[2:19]) & 0xFF
        return orig(self, bytes(p))
    D.decode_usb = bad
    try:
        yield
    finally:
        D.decode_usb = orig


@contextlib.contextmanager
def mutant_yd_rejects_T():
    from nmea2000.decoder import NMEA2000Decoder as D
    orig = D.decode_yacht_devices_string

    def bad(self, s):
        if s.split()[1] == "T":
            raise ValueError("Invalid format: 2nd part should be 'R'")
        return orig(self, s)
    D.decode_yacht_devices_string = bad
    try:
        yield
    finally:
        D.decode_yacht_devices_string = orig


MUTANTS = {"decode_usb reads the identifier big-endian": mutant_usb_big_endian_id, "YD parser rejects T": mutant_yd_rejects_T}
