"""C03 — fast-packet segmentation and reassembly are inverse for every payload length.

B1  MC_FP_Inverse: Shape / InverseLaw / Counter / Forgets for all lengths 0..223 x all 8 counter
    states, and for runs of 18 consecutive messages over two stream keys (counter wrap-around; a
    stream seeing the same counter twice in a row).
B2  TLC emits the segmentation table of the specification for every length; the real
    _encode_fast_message is run for all 224 lengths x 8 counter states and compared by lookup.
B3  (a) every message the real encoder framed (arbitrary lengths through _encode_fast_message, every
    encodable fast-packet definition through encode_ebyte / encode_usb / encode_yacht_devices, runs
    of consecutive messages) is judged by TLC against Segment (Trace_FPSend);
    (b) the frames are fed in order to real decoders (decode_tcp / decode_usb /
    decode_yacht_devices_string) and the recorded traces are validated by TLC against Recv (Trace_FP).
"""
from __future__ import annotations

import contextlib
import copy
import json
import random

from .. import corpus
from .. import fastpacket as fp
from ..codec import load_db
from ..common import Check, workdir
from ..tlc import run_tlc, run_trace_tlc
from .c02 import payload_of_actisense

LEVEL = "model_checking"


def model(chk: Check, tier: str):
    tot_s = tot_t = 0
    for cfg in ("MC_FP_Inverse_all.cfg", "MC_FP_Inverse_wrap.cfg"):
        r = run_tlc("MC_FP_Inverse", cfg, name="MC_FP_Inverse", timeout=1800)
        for inv in r.violated:
            chk.violation(f"spec/{inv}", f"TLC: {inv} violated in MC_FP_Inverse ({cfg})", {"tlc": r.error_text(60)})
        chk.gate(r.distinct > 5000, f"MC_FP_Inverse/{cfg} explored only {r.distinct} states")
        tot_s += r.distinct
        tot_t += r.generated
    chk.add(states=tot_s, transitions=tot_t, exhaustive=True)


def frames_of_packets(fmt: str, packets) -> tuple[list[list[int]], int]:
    """CAN data bytes per frame + identifier, read back from the wire packets"""
    frames, ident = [], 0
    for p in packets:
        if fmt == "ebyte":
            ident = int.from_bytes(p[1:5], "big")
            frames.append(list(p[5:5 + (p[0] & 0x0F)]))
        elif fmt == "usb":
            ident = int.from_bytes(p[5:9], "little")
            frames.append(list(p[10:10 + p[9]]))
        else:
            parts = p.decode().split()
            ident = int(parts[0], 16)
            frames.append([int(x, 16) for x in parts[1:]])
    return frames, ident


def client_sends(kind: str, nbefore: int, rng: random.Random):
    """[((previous counter, frames), payload)] of the fast-packet messages a client wrote: `nbefore` messages, the link ends,
    the client reconnects, two more messages, the link ends again, one more"""
    from nmea2000.encoder import NMEA2000Encoder
    from .. import clientfaults as cf
    from .. import clientrun as cr
    from .. import vloop
    msg = next(m for m, _, _ in cr.history_messages(rng) if m.PGN == 129029)
    sess = vloop.Session(cf.Plan())

    def scenario(s):
        s.user("connect", s.client.connect)
        t = 8.0                      # (after the serial client's own seeding requests)
        for _ in range(nbefore):
            s.at_time(t, lambda: s.user("send", lambda: s.client.send(copy.deepcopy(msg))))
            t += 0.2
        s.at_time(t + 1.0, lambda: s.eof(max(s.readers)))
        for dt in (9.0, 9.2):
            s.at_time(t + dt, lambda: s.user("send", lambda: s.client.send(copy.deepcopy(msg))))
        s.at_time(t + 11.0, lambda: s.eof(max(s.readers)))
        s.at_time(t + 20.0, lambda: s.user("send", lambda: s.client.send(copy.deepcopy(msg))))
    sess.run(vloop.make_client_factory(kind), scenario, until=45.0)
    want = payload_of_actisense(NMEA2000Encoder().encode_actisense(msg))
    fmt = {"ebyte": "ebyte", "yd": "yd", "waveshare": "usb"}[kind]
    out, cur, prevq = [], [], -1
    for c in sorted(sess.wire):
        for w in sess.wire[c]:
            if kind == "waveshare" and len(w) == 20 and w[2] == 0x02:
                continue                     # the serial configuration packet of this connection
            fr, ident = frames_of_packets(fmt, [w])
            if ((ident >> 8) & 0x3FFFF) >> 0 not in (129029,) and ((ident >> 8) & 0x1FFFF) != 129029:
                continue                     # the client's own single-frame requests
            f = fr[0]
            if f and (f[0] & 31) == 0 and cur:
                out.append(((prevq, cur), want))
                prevq, cur = cur[0][0] >> 5, []
            cur.append(f)
    if cur:
        out.append(((prevq, cur), want))
    return out


def bind(chk: Check, tier: str, seed: int):
    from nmea2000.decoder import NMEA2000Decoder
    from nmea2000.encoder import NMEA2000Encoder
    wd = workdir("C03")
    db, _ = load_db(wd)
    rng = random.Random(seed)
    send_recs, send_meta = [], []
    traces, labels = [], []

    # (1) arbitrary lengths through the fast-packet framer, all counter states, several stream keys
    lens_all = list(range(224))
    for q0 in range(8):
        enc, dec = NMEA2000Encoder(), NMEA2000Decoder()
        enc.sequence_counter = q0
        tr, lab = [], []
        prevq = -1
        order = lens_all if tier != "selftest" else lens_all[::9]
        for n_msg, L in enumerate(order):
            s = 1 + (n_msg % 2 if q0 % 2 else 0)            # odd counter states alternate two streams
            pgn, src, dst = fp.STREAMS[s]
            payload = fp.payload_of(s, n_msg % 250 + 1, L)
            try:
                frames = [list(f) for f in enc._encode_fast_message(pgn, fp.PRIO, src, dst, payload)]
            except Exception:              # noqa: BLE001 - a length in 0..223 the framer refuses: no frames (TLC judges)
                frames = []
            send_recs.append({"payload": list(payload), "frames": frames, "prevq": prevq})
            send_meta.append(f"framer/L={L}/q0={q0}")
            if not frames:
                continue
            prevq = frames[0][0] >> 5
            for f in frames:
                seq, fc = f[0] >> 5, f[0] & 31
                tr.append(fp.feed(dec, s, seq, fc, f[1] if fc == 0 and len(f) > 1 else 0, f[2:] if fc == 0 else f[1:]))
                lab.append(f"framer/L={L}")
        traces.append(tr)
        labels.append(lab)
    # (2) one stream recurring after exactly 8 messages (same counter twice in a row on that stream)
    enc, dec = NMEA2000Encoder(), NMEA2000Decoder()
    tr, lab = [], []
    for n_msg in range(40):
        s = 1 if n_msg % 8 == 0 else 2 + (n_msg % 3)
        pgn, src, dst = fp.STREAMS[s]
        L = rng.choice([7, 8, 14, 20, 33])
        payload = fp.payload_of(s, n_msg + 1, L)
        for f in enc._encode_fast_message(pgn, fp.PRIO, src, dst, payload):
            f = list(f)
            seq, fc = f[0] >> 5, f[0] & 31
            if fc == 0 and n_msg % 2:
                # a copy of the first frame cut after its counter byte comes first (refused with an error, no step of the
                # receiver): the intact retransmission that follows starts the message
                try:
                    dec.decode_tcp(fp.ebyte_packet(pgn, src, dst, fp.PRIO, bytes(f[:1])))
                except Exception:          # noqa: BLE001
                    pass
            tr.append(fp.feed(dec, s, seq, fc, f[1] if fc == 0 else 0, f[2:] if fc == 0 else f[1:]))
            lab.append("wrap-on-one-stream")
    traces.append(tr)
    labels.append(lab)

    # (3) public encoders: every encodable fast-packet definition, runs of consecutive messages
    fast_defs = [d for d in db["defs"] if d["encodable"] and d["fast"] == "fast"]
    if tier == "selftest":
        fast_defs = fast_defs[::6]
    n_pub = 0
    for fmt in (("ebyte",) if tier == "quick" else ("ebyte", "usb", "yd")) if tier != "selftest" else ("ebyte",):
        enc, dec, dec0 = NMEA2000Encoder(), NMEA2000Decoder(), NMEA2000Decoder()
        enc.sequence_counter = rng.randrange(8)
        keys: dict[tuple, int] = {}
        tr, lab = [], []
        prevq = -1
        for d in fast_defs:
            payload = corpus.build_payload(d, {}, rng)
            try:
                msg = dec0.decode_basic_string(corpus.basic_string(d["pgn"], payload, src=rng.randrange(1, 5), dst=255),
                                               already_combined=True)
                if msg is None or msg.id != d["id"]:
                    continue
                want = payload_of_actisense(enc.encode_actisense(msg))
                pk = {"ebyte": enc.encode_ebyte, "usb": enc.encode_usb, "yd": enc.encode_yacht_devices}[fmt](msg)
            except Exception:              # noqa: BLE001 - not decodable / encodable: outside the domain
                continue
            frames, ident = frames_of_packets(fmt, pk)
            if not frames or not frames[0]:
                continue
            n_pub += 1
            send_recs.append({"payload": list(want), "frames": frames, "prevq": prevq})
            send_meta.append(f"{fmt}/{d['id']}")
            prevq = frames[0][0] >> 5
            k = keys.setdefault((msg.PGN, msg.source), len(keys) % 8 + 1)
            for p, f in zip(pk, frames):
                seq, fc = f[0] >> 5, f[0] & 31
                ev = {"s": k, "seq": seq, "fc": fc, "len": f[1] if fc == 0 and len(f) > 1 else 0,
                      "chunk": f[2:] if fc == 0 else f[1:], "obs": "none", "payload": []}
                try:
                    if fmt == "ebyte":
                        out = dec.decode_tcp(p)
                    elif fmt == "usb":
                        out = dec.decode_usb(p)
                    else:
                        out = dec.decode_yacht_devices_string("00:00:00.000 R " + p.decode().strip())
                except Exception as e:     # noqa: BLE001
                    ev["obs"], ev["err"] = "err", f"{type(e).__name__}: {e}"[:100]
                    out = None
                if out is not None:
                    try:
                        ev["obs"], ev["payload"] = "msg", list(payload_of_actisense(NMEA2000Encoder().encode_actisense(out)))
                    except Exception:      # noqa: BLE001
                        ev["obs"], ev["payload"] = "msg", []
                    # a definition without a fixed Length is re-encoded without trailing zero bytes
                    ev["payload"] += [0] * (len(want) - len(ev["payload"]))
                tr.append(ev)
                lab.append(f"{fmt}/{d['id']}")
        # stream keys above 8 collide on purpose never: keys are reused modulo 8 only across different PGNs
        traces.append(tr)
        labels.append(lab)
    chk.gate(n_pub >= (10 if tier == "selftest" else 100), f"only {n_pub} definitions went through the public encoders")

    # (4) through a gateway client's send(): consecutive fast-packet messages of one sender, with the link lost and re-established
    # between them (the bus does not know about the sender's TCP link: the counter still has to differ from the previous message's)
    n_client = 0
    for kind in ("ebyte", "yd", "waveshare") if tier != "selftest" else ("ebyte",):
        for nbefore in (1, 2, 8):
            for frames, want in client_sends(kind, nbefore, rng):
                n_client += 1
                send_recs.append({"payload": list(want), "frames": frames[1], "prevq": frames[0]})
                send_meta.append(f"client-{kind}/send-across-reconnect")
    # (5) the receiving side of the clients: the encoder's frames of a message whose payload contains the byte pairs the serial
    # protocol uses as its start marker (AA 55: a date of 21930 days, a SID of 0xAA in front of a 0x55) arrive on a clean link; the
    # client hands over exactly one message, with that payload
    from .. import clientrun as cr
    d29 = next(x for x in db["defs"] if x["id"] == "gnssPositionData")
    idx29 = {f["id"]: i for i, f in enumerate(d29["fields"])}
    for kind, fmt_ in (("ebyte", "ebyte"), ("yd", "yd"), ("waveshare", "usb")) if tier != "selftest" else (("waveshare", "usb"),):
        for codes in ({idx29["date"]: 0x55AA}, {idx29["sid"]: 0xAA, idx29["date"]: 0x1255}, {idx29["latitude"]: 0x0102AA5504050607},
                      {idx29["altitude"]: 0x55AA55AA55AA}, {idx29["sid"]: 7}):
            payload = corpus.build_payload(d29, {idx29["time"]: 360000000, idx29["numberOfSvs"]: 9, idx29["referenceStations"]: 0, **codes})
            msg = NMEA2000Decoder().decode_basic_string(corpus.basic_string(129029, payload, src=33, dst=255), already_combined=True)
            if msg is None:
                continue
            enc = NMEA2000Encoder()
            enc.sequence_counter = rng.randrange(8)
            want = payload_of_actisense(enc.encode_actisense(msg))
            pk = {"ebyte": enc.encode_ebyte, "usb": enc.encode_usb, "yd": enc.encode_yacht_devices}[fmt_](msg)
            frames, _ = frames_of_packets(fmt_, pk)
            got = [m for m in cr.deliveries(kind, [((b"00:00:00.000 R " + p) if kind == "yd" else p, "valid") for p in pk]) if m.PGN == 129029]
            tr, lab = [], []
            for j, f in enumerate(frames):
                seq, fc = f[0] >> 5, f[0] & 31
                ev = {"s": 1, "seq": seq, "fc": fc, "len": f[1] if fc == 0 and len(f) > 1 else 0, "chunk": f[2:] if fc == 0 else f[1:],
                      "obs": "none", "payload": []}
                if j == len(frames) - 1 and len(got) == 1:
                    try:
                        pl = list(payload_of_actisense(NMEA2000Encoder().encode_actisense(got[0])))
                    except Exception:      # noqa: BLE001
                        pl = []
                    ev["obs"], ev["payload"] = "msg", pl + [0] * (len(want) - len(pl))
                elif j == len(frames) - 1 and len(got) > 1:
                    ev["obs"], ev["err"] = "err", f"{len(got)} messages delivered"
                tr.append(ev)
                lab.append(f"client-{kind}/receive/marker-bytes-in-payload")
            traces.append(tr)
            labels.append(lab)
    chk.gate(n_client >= 3, f"only {n_client} fast-packet messages were written by clients")
    chk.add(messages_sent_through_clients=n_client)

    # --- B2: table emitted by TLC vs the real framer (lookup only) --------------------------------
    inp, outp, tab = wd / "send.json", wd / "send-verdicts.json", wd / "table.json"
    inp.write_text(json.dumps(send_recs))
    _, v = run_trace_tlc("Trace_FPSend", "Trace_FPSend.cfg", inp, outp, name="Trace_FPSend",
                         extra_env={"TABLE_FILE": str(tab)})
    chk.gate(v["n"] == len(send_recs), "Trace_FPSend did not judge every record")
    for b in v["bad"]:
        r = send_recs[b["k"] - 1]
        chk.violation(f"{b['c']}/{send_meta[b['k'] - 1].split('/')[0]}",
                      f"{send_meta[b['k'] - 1]}: payload of {len(r['payload'])} bytes framed as {[bytes(f).hex() for f in r['frames']][:6]}",
                      {"record": r, "where": send_meta[b["k"] - 1]})
    table = json.loads(tab.read_text())
    looked = 0
    for q0 in range(8):
        for L in range(224):
            enc = NMEA2000Encoder()
            enc.sequence_counter = q0
            payload = bytes((j * 7 + L) % 256 for j in range(L))
            frames = enc._encode_fast_message(126720, 6, 1, 2, payload)
            row = table[L]
            shape = [[(f[0] >> 5), f[0] & 31, (f[1] if i == 0 and len(f) > 1 else -1), len(f) - (2 if i == 0 else 1)]
                     for i, f in enumerate(frames)]
            want = [[q0, i, (L if i == 0 else -1), c[1]] for i, c in enumerate(row["chunks"])]
            looked += 1
            if shape != want or enc.sequence_counter != (q0 + 1) % 8:
                chk.violation("table/shape", f"L={L} q={q0}: framer produced {shape[:4]}.. counter {enc.sequence_counter}, "
                                             f"specification table says {want[:4]}..", {"L": L, "q": q0})
    # --- B3: receiver traces --------------------------------------------------------------------
    from .c04 import validate
    validate(chk, wd, traces, labels, "inorder")
    chk.add(traces_validated_against_impl=len(traces), events_replayed=sum(len(t) for t in traces),
            sender_records=len(send_recs), table_rows_looked_up=looked, public_definitions=n_pub)
    chk.sample({"sender_record": {"payload_len": len(send_recs[20]["payload"]),
                                  "frames": [bytes(f).hex() for f in send_recs[20]["frames"]], "prevq": send_recs[20]["prevq"]}})
    chk.sample({"receiver_trace_excerpt": [f"{e['seq']}/{e['fc']} len={e['len']} -> {e['obs']}" for e in traces[0][60:70]]})
    chk.assumptions += ["_encode_fast_message is driven directly for arbitrary lengths (no public definition has every length)",
                        "on the public path the returned message's payload is observed by re-encoding it (relies on C02)"]


def run(tier: str, seed: int) -> int:
    chk = Check("C03", tier, seed, LEVEL)
    model(chk, tier)
    bind(chk, tier, seed)
    return chk.finish()


@contextlib.contextmanager
def mutant_first_capacity_7():
    from nmea2000.encoder import NMEA2000Encoder as E
    orig = E._encode_fast_message

    def bad(self, pgn, priority, src, dest, payload_bytes):
        n = len(payload_bytes)
        total = 1 if n <= 7 else 1 + (n - 7 + 6) // 7
        out, off = [], 0
        for fc in range(total):
            size = 7 if fc == 0 else 7
            chunk = payload_bytes[off:off + (6 if fc == 0 else 7)]
            off += len(chunk)
            out.append(bytes([(self.sequence_counter << 5) | fc]) + (bytes([n]) if fc == 0 else b"") + chunk)
        self.sequence_counter = (self.sequence_counter + 1) % 8
        return out
    E._encode_fast_message = bad
    try:
        yield
    finally:
        E._encode_fast_message = orig


@contextlib.contextmanager
def mutant_counter_not_advanced():
    from nmea2000.encoder import NMEA2000Encoder as E
    orig = E._encode_fast_message

    def bad(self, *a):
        q = self.sequence_counter
        out = orig(self, *a)
        self.sequence_counter = q
        return out
    E._encode_fast_message = bad
    try:
        yield
    finally:
        E._encode_fast_message = orig


@contextlib.contextmanager
def mutant_extra_empty_frame():
    from nmea2000.encoder import NMEA2000Encoder as E
    orig = E._encode_fast_message

    def bad(self, pgn, priority, src, dest, payload_bytes):
        q = self.sequence_counter
        out = orig(self, pgn, priority, src, dest, payload_bytes)
        if len(payload_bytes) > 6 and (len(payload_bytes) - 6) % 7 == 0:
            out.append(bytes([(q << 5) | len(out)]))
        return out
    E._encode_fast_message = bad
    try:
        yield
    finally:
        E._encode_fast_message = orig


MUTANTS = {"first frame capacity 7": mutant_first_capacity_7, "counter not advanced": mutant_counter_not_advanced,
           "extra empty frame at 6+7k": mutant_extra_empty_frame}
