"""C11 — messages carry the identity of their source's latest address claim.

B1  MC_Decoder (configuration family C11Cfgs: manufacturer exclude / include lists, network map on /
    off, claim PGN filtered or not): LatestClaim, NoLeak, Discovery, Isolation and the non-vacuity
    clause Returned, over histories of claims (three NAMEs of two known and one unknown manufacturer),
    re-claims, the same NAME on two addresses, claims inside fast-packet messages, data before claims,
    and the end of the discovery window.
B2+B3  TLC-generated behaviours (3 sources, 14 inputs) are replayed into real decoders (manufacturer
    lists spelled in random letter case; the 10-minute discovery window driven by a settable clock);
    the recorded histories - including the identity (NAME) attached to every returned message - are
    validated by TLC against N2KDecoder!Step.
B3' identity records: address claims with boundary and random 64-bit NAMEs are decoded, followed by data
    from the claiming source; the identity objects attached to the claim and to the later messages (unique
    number, manufacturer, instance, function, class, NAME) are judged by TLC (Trace_Codec MODE=C11) as the
    specified function of the claim's fields, which C01Verdict ties to the payload bits.
"""
from __future__ import annotations

import contextlib

from ..common import Check, workdir
from . import c10

LEVEL = "model_checking"
PROP = "C11"


def classify(clause: str, tr: dict, e: dict):
    side, what = clause.split(".", 1)
    cfg = tr["cfg"]
    ident_cfg = cfg["mfrMode"] != "none" or cfg["netmap"]
    if what == "wrong-identity":
        return f"{what}/{e['in']['k']}/netmap={cfg['netmap']}"
    if what in ("unexpected-output", "missing-output") and ident_cfg and side == "U":
        return f"{what}/{cfg['mfrMode']}/netmap={cfg['netmap']}/{e['in']['k']}"
    if what in ("unexpected-output", "missing-output") and ident_cfg and side == "F" and cfg["mode"] == "none":
        return f"{what}/{cfg['mfrMode']}/netmap={cfg['netmap']}/{e['in']['k']}"
    return None


def pident(iso) -> dict:
    from .. import project
    if iso is None:
        return {"some": False, "unique": 0, "inst": 0, "mfr": project.pv(None), "func": project.pv(None), "cls": project.pv(None),
                "name": []}
    name = iso.name if isinstance(iso.name, int) and 0 <= iso.name < 1 << 64 else 0
    num = lambda x: x if isinstance(x, int) and not isinstance(x, bool) and 0 <= x < 1 << 30 else -1    # noqa: E731
    return {"some": True, "unique": num(iso.unique_number), "inst": num(iso.device_instance),
            "mfr": project.pv(iso.manufacturer_code), "func": project.pv(iso.device_function), "cls": project.pv(iso.device_class),
            "name": list(name.to_bytes(8, "little"))}


def identity_records(chk: Check, wd, tier: str, seed: int):
    """claims with boundary / random NAMEs -> what the decoder attaches to the claim and to later messages"""
    import random

    from nmea2000.decoder import NMEA2000Decoder

    from .. import corpus, fastpacket as fp, project
    from ..codec import load_db, validate
    from ..gen_db import build, load_raw
    db, _ = load_db(wd)
    d = next(x for x in db["defs"] if x["id"] == "isoAddressClaim")
    rawdef = next(p for p in load_raw()["PGNs"] if p["Id"] == "isoAddressClaim")
    rng = random.Random(seed)
    payloads = [p for _, p in corpus.payloads_for(d, rng, {"quick": 150, "thorough": 2000, "selftest": 30}[tier])]
    # known manufacturer / class / function codes in every combination of a few instances
    keys = sorted(build()["indirect"]["DEVICE_FUNCTION"])
    mfrs = sorted(int(k) for k in db["lookups"]["MANUFACTURER_CODE"])
    idx = {f["id"]: i for i, f in enumerate(d["fields"])}
    for k in range({"quick": 150, "thorough": 1500, "selftest": 30}[tier]):
        cls, fun = (int(x) for x in rng.choice(keys).split("_"))
        payloads.append(corpus.build_payload(d, {idx["uniqueNumber"]: rng.getrandbits(21), idx["manufacturerCode"]: rng.choice(mfrs),
                                                 idx["deviceInstanceLower"]: rng.getrandbits(3), idx["deviceInstanceUpper"]: rng.getrandbits(5),
                                                 idx["deviceFunction"]: fun, idx["deviceClass"]: cls,
                                                 idx["systemInstance"]: rng.getrandbits(4), idx["industryGroup"]: rng.getrandbits(3)}))
    dec = NMEA2000Decoder()
    recs = []
    for n, payload in enumerate(payloads):
        src = 1 + n % 250
        o = {"pgn": 60928, "p": list(payload), "ret": "none", "err": "", "hdr": {"pgn": 0, "id": "", "desc": "", "ttl": -1}, "f": [], "ids": []}
        try:
            m = dec.decode_tcp(fp.ebyte_packet(60928, src, 255, 6, bytes(payload)))
        except Exception as e:             # noqa: BLE001
            o["ret"], o["err"] = "err", f"{type(e).__name__}: {e}"[:100]
            m = None
        if m is not None:
            o["ret"] = "msg"
            o.update(project.pmsg(m, d, rawdef))
            o["ids"].append(pident(m.source_iso_name))
            for other in (src, src % 250 + 1):            # data from the claiming source, then from its neighbour
                m2 = dec.decode_tcp(fp.ebyte_packet(127250, other, 255, 2, bytes([n % 250, 0x10, 0x20, 0, 0, 0, 0, 0xFC])))
                if other == src and m2 is not None:
                    o["ids"].append(pident(m2.source_iso_name))
        recs.append(o)
    decoded = sum(1 for r in recs if r["ret"] == "msg")
    chk.gate(decoded >= len(recs) // 2, f"only {decoded} of {len(recs)} claims were decoded")
    bad = validate("C11", recs, wd, shards=4)
    for i, vs in bad:
        for v in vs:
            what = v["c"] if v["c"].startswith("identity.") else "identity.claim-fields/" + v["c"]
            if recs[i]["ret"] != "msg":
                continue        # a claim the decoder refuses attaches no identity: whether it must decode is C01's clause
            chk.violation(f"{what}", f"claim {bytes(recs[i]['p']).hex()}: {v['c']} "
                          f"(identity #{v['f']} of {[(x['unique'], x['inst'], x['mfr']['s'], x['func']['s'], x['cls']['s']) for x in recs[i]['ids']]})",
                          {"claim": bytes(recs[i]["p"]).hex(), "clause": v["c"], "identities": recs[i]["ids"]})
    chk.add(identity_records=len(recs), identity_claims_decoded=decoded,
            identities_judged=sum(len(r["ids"]) for r in recs))


def directed_histories(tier: str):
    """histories a random walk rarely produces: one address claims, sends, claims another NAME, sends again (every
    ordered pair of NAMEs, i.e. every change of manufacturer), two addresses trading NAMEs, data before the first
    claim with the discovery window closing in between - under every manufacturer list, with and without network map,
    with the claim PGN filtered or not"""
    def frames(s, q):
        return [{"k": "frame", "src": s, "seq": q, "fc": i, "len": 14, "chunk": [1]} for i in range(3)]

    def single(p, s):
        return {"k": "single", "pgn": p, "src": s, "tok": []}
    hists = []
    for n1 in (1, 2, 3):
        for n2 in (1, 2, 3):
            hists.append([{"k": "claim", "src": 1, "name": n1}, single("A", 1), {"k": "claim", "src": 1, "name": n2}, single("A", 1),
                          single("B", 1)] + frames(1, 1) + [{"k": "claim", "src": 1, "name": n1}, single("B", 1)])
            hists.append([{"k": "claim", "src": 1, "name": n1}, {"k": "claim", "src": 2, "name": n2}, single("A", 1), single("A", 2),
                          {"k": "claim", "src": 1, "name": n2}, {"k": "claim", "src": 2, "name": n1}, single("B", 1), single("B", 2)]
                         + frames(2, 2))
            hists.append([single("A", 1), {"k": "claim", "src": 2, "name": n1}, single("A", 2), {"k": "window"}, single("A", 1),
                          {"k": "claim", "src": 1, "name": n2}, single("B", 1), single("A", 2)])
    # a source that never claims, after the discovery window has passed: every one of its messages is returned, the first like
    # the tenth, single frames and a fast-packet message alike
    hists.append([single("A", 1), {"k": "window"}, single("A", 2), single("A", 2), single("B", 2), single("A", 1), single("A", 2)]
                 + frames(2, 1) + [single("B", 2), single("A", 1)] + frames(1, 2))
    cfgs = []
    for mm, mf, mi in (("none", [], []), ("exclude", ["m1"], []), ("exclude", ["m2"], []), ("include", ["m1"], []), ("include", ["m2"], []),
                       # both lists at once: a manufacturer on both, on one of them only, on none
                       ("both", ["m1"], ["m1", "m2"]), ("both", ["m1", "m2"], ["m2"]), ("both", ["m2"], ["m1"]), ("both", ["m1"], [])):
        for nm in (False, True):
            for mode, nums in (("none", []), ("exclude", ["CLAIM"])):
                cfgs.append({"mode": mode, "nums": nums, "ids": [], "mfrMode": mm, "mfrs": mf, "mfrsIn": mi, "netmap": nm})
    if tier == "selftest":
        cfgs = cfgs[::3]
    out = []
    for cfg in cfgs:
        for h in hists:
            out.append([("Init", {"cfg": cfg, "ev": {"k": "init"}})] + [("Directed", {"cfg": cfg, "ev": e}) for e in h])
    return out


def client_histories(tier: str, seed: int):
    """claim / data histories through the four real gateway clients built with the configuration's options, the link lost and
    re-established at a chosen step: the identity a source claimed on the first link is still its identity on the second"""
    import random
    from .. import decoderrun as dr
    rng = random.Random(seed + 3)

    def single(p, s):
        return {"k": "single", "pgn": p, "src": s, "tok": []}
    h1 = [{"k": "claim", "src": 1, "name": 1}, single("A", 1), {"k": "claim", "src": 2, "name": 2}, single("A", 2), single("A", 1),
          single("B", 2), single("B", 1), {"k": "claim", "src": 1, "name": 2}, single("A", 1)]
    h2 = [single("A", 1), {"k": "claim", "src": 1, "name": 2}, single("A", 1), {"k": "window"}, single("A", 2), single("A", 1),
          {"k": "claim", "src": 2, "name": 1}, single("B", 2)]
    cfgs = [{"mode": "none", "nums": [], "ids": [], "mfrMode": mm, "mfrs": mf, "mfrsIn": mi, "netmap": nm}
            for mm, mf, mi in (("none", [], []), ("exclude", ["m1"], []), ("include", ["m2"], []), ("both", ["m1"], ["m1", "m2"]))
            for nm in (False, True)]
    out = []
    kinds = ("ebyte", "actisense", "yd", "waveshare") if tier != "selftest" else ("ebyte",)
    for kind in kinds:
        for ci, cfg in enumerate(cfgs):
            for hi, (h, relinks) in enumerate(((h1, (4,)), (h1, (2, 7)), (h2, (4,)), (h1, ()))):
                if tier != "thorough" and (ci + hi) % 2:
                    continue
                out.append(dr.replay_through_client(kind, cfg, h, rng, relink_before=relinks))
    return out


def bind(chk: Check, tier: str, seed: int):
    wd = workdir(PROP)
    identity_records(chk, wd, tier, seed)
    through_clients = client_histories(tier, seed)
    chk.add(histories_through_clients=len(through_clients))
    traces, outs, drops = c10.run_traces(chk, wd, PROP, tier, seed, classify, directed=directed_histories(tier),
                                         more_traces=through_clients)
    with_ident = sum(1 for t in traces for e in t["evs"] if e["obsU"]["ret"] == "msg" and e["obsU"]["ident"] not in (0,))
    inside = sum(1 for t in traces for i, e in enumerate(t["evs"][1:], 1)
                 if e["in"]["k"] == "claim" and any(x["in"]["k"] == "frame" and x["in"]["src"] == e["in"]["src"] for x in t["evs"][max(0, i - 3):i]))
    chk.gate(with_ident > len(traces) // 2, f"only {with_ident} returned messages carried an identity")
    chk.gate(tier == "selftest" or inside >= 10, f"only {inside} claims arrived next to fast-packet frames of the same source")
    chk.add(messages_with_identity=with_ident, claims_next_to_fast_frames=inside)
    chk.assumptions += ["NAMEs 1/2/3 are claims of Garmin / BEP Marine (two manufacturer numbers each) / an unknown manufacturer code; an unknown manufacturer "
                        "passes manufacturer lists (left unconstrained by the property)",
                        "the discovery window is driven by substituting decoder.datetime with a settable clock"]


def run(tier: str, seed: int) -> int:
    chk = Check(PROP, tier, seed, LEVEL)
    c10.model(chk, tier, PROP)
    bind(chk, tier, seed)
    return chk.finish()


@contextlib.contextmanager
def mutant_map_keyed_by_destination():
    from nmea2000.decoder import NMEA2000Decoder as D
    orig = D._call_decode_function

    def bad(self, pgn, priority, src, dest, *a, **k):
        if pgn == 60928:
            return orig(self, pgn, priority, dest, dest, *a, **k)        # the claim is filed under the destination
        return orig(self, pgn, priority, src, dest, *a, **k)
    D._call_decode_function = bad
    try:
        yield
    finally:
        D._call_decode_function = orig


@contextlib.contextmanager
def mutant_stale_identity_on_reclaim():
    from nmea2000.decoder import NMEA2000Decoder as D
    orig = D._call_decode_function

    def bad(self, pgn, priority, src, dest, timestamp, data, *a, **k):
        if pgn == 60928 and src in self.source_to_iso_name:
            keep = self.source_to_iso_name[src]
            res = orig(self, pgn, priority, src, dest, timestamp, data, *a, **k)
            self.source_to_iso_name[src] = keep                         # first claim wins
            return res
        return orig(self, pgn, priority, src, dest, timestamp, data, *a, **k)
    D._call_decode_function = bad
    try:
        yield
    finally:
        D._call_decode_function = orig


@contextlib.contextmanager
def mutant_instance_shift():
    import nmea2000.message as M
    orig = M.IsoName.__init__

    def bad(self, message, name):
        orig(self, message, name)
        self.device_instance = (message.get_field_int_value_by_id('deviceInstanceUpper', 0) << 4) \
            | message.get_field_int_value_by_id('deviceInstanceLower', 0)
    M.IsoName.__init__ = bad
    try:
        yield
    finally:
        M.IsoName.__init__ = orig


@contextlib.contextmanager
def mutant_function_is_class():
    import nmea2000.message as M
    orig = M.IsoName.__init__

    def bad(self, message, name):
        orig(self, message, name)
        self.device_function = self.device_class
    M.IsoName.__init__ = bad
    try:
        yield
    finally:
        M.IsoName.__init__ = orig


MUTANTS = {"identity: instance upper shifted by 4": mutant_instance_shift, "identity: function taken from class": mutant_function_is_class,
           "source map keyed by destination": mutant_map_keyed_by_destination,
           "stale identity kept on re-claim": mutant_stale_identity_on_reclaim}
