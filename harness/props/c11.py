"""C11 — messages carry the identity of their source's latest address claim.

B1  MC_Decoder (configuration family C11Cfgs: manufacturer exclude / include lists, network map on /
    off, claim PGN filtered or not): LatestClaim, NoLeak, Discovery, Isolation and the non-vacuity
    clause Returned, over histories of claims (three NAMEs of two known and one unknown manufacturer),
    re-claims, the same NAME on two addresses, claims inside fast-packet messages, data before claims,
    and the end of the discovery window.
B2+B3  TLC-generated behaviours (3 sources, 14 inputs) are replayed into real decoders (manufacturer
    lists spelled in random letter case; the 10-minute discovery window driven by a settable clock);
    the recorded histories - including the identity (NAME) attached to every returned message - are
    validated by TLC against N2KDecoder!Step.  The identity fields themselves (unique number,
    manufacturer, instance, function, class) are checked against the claim payload by C01's codec
    validation of PGN 60928.
"""
from __future__ import annotations

import contextlib

from ..common import Check, workdir
from . import c10

LEVEL = "model_checking"
PROP = "C11"


def classify(clause: str, tr: dict, e: dict):
    side, what = clause.split(".", 1)
    cfg = tr["cfg"]
    ident_cfg = cfg["mfrMode"] != "none" or cfg["netmap"]
    if what == "wrong-identity":
        return f"{what}/{e['in']['k']}/netmap={cfg['netmap']}"
    if what in ("unexpected-output", "missing-output") and ident_cfg and side == "U":
        return f"{what}/{cfg['mfrMode']}/netmap={cfg['netmap']}/{e['in']['k']}"
    if what in ("unexpected-output", "missing-output") and ident_cfg and side == "F" and cfg["mode"] == "none":
        return f"{what}/{cfg['mfrMode']}/netmap={cfg['netmap']}/{e['in']['k']}"
    return None


def bind(chk: Check, tier: str, seed: int):
    wd = workdir(PROP)
    traces, outs, drops = c10.run_traces(chk, wd, PROP, tier, seed, classify)
    with_ident = sum(1 for t in traces for e in t["evs"] if e["obsU"]["ret"] == "msg" and e["obsU"]["ident"] not in (0,))
    inside = sum(1 for t in traces for i, e in enumerate(t["evs"][1:], 1)
                 if e["in"]["k"] == "claim" and any(x["in"]["k"] == "frame" and x["in"]["src"] == e["in"]["src"] for x in t["evs"][max(0, i - 3):i]))
    chk.gate(with_ident > len(traces) // 2, f"only {with_ident} returned messages carried an identity")
    chk.gate(tier == "selftest" or inside >= 10, f"only {inside} claims arrived next to fast-packet frames of the same source")
    chk.add(messages_with_identity=with_ident, claims_next_to_fast_frames=inside)
    chk.assumptions += ["NAMEs 1/2/3 are claims of Furuno / Maretron / an unknown manufacturer code; an unknown manufacturer "
                        "passes manufacturer lists (left unconstrained by the property)",
                        "the discovery window is driven by substituting decoder.datetime with a settable clock"]


def run(tier: str, seed: int) -> int:
    chk = Check(PROP, tier, seed, LEVEL)
    c10.model(chk, tier, PROP)
    bind(chk, tier, seed)
    return chk.finish()


@contextlib.contextmanager
def mutant_map_keyed_by_destination():
    from nmea2000.decoder import NMEA2000Decoder as D
    orig = D._call_decode_function

    def bad(self, pgn, priority, src, dest, *a, **k):
        if pgn == 60928:
            return orig(self, pgn, priority, dest, dest, *a, **k)        # the claim is filed under the destination
        return orig(self, pgn, priority, src, dest, *a, **k)
    D._call_decode_function = bad
    try:
        yield
    finally:
        D._call_decode_function = orig


@contextlib.contextmanager
def mutant_stale_identity_on_reclaim():
    from nmea2000.decoder import NMEA2000Decoder as D
    orig = D._call_decode_function

    def bad(self, pgn, priority, src, dest, timestamp, data, *a, **k):
        if pgn == 60928 and src in self.source_to_iso_name:
            keep = self.source_to_iso_name[src]
            res = orig(self, pgn, priority, src, dest, timestamp, data, *a, **k)
            self.source_to_iso_name[src] = keep                         # first claim wins
            return res
        return orig(self, pgn, priority, src, dest, timestamp, data, *a, **k)
    D._call_decode_function = bad
    try:
        yield
    finally:
        D._call_decode_function = orig


MUTANTS = {"source map keyed by destination": mutant_map_keyed_by_destination,
           "stale identity kept on re-claim": mutant_stale_identity_on_reclaim}
