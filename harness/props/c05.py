"""C05 — CAN identifier packing and parsing are mutually inverse (PDU1/PDU2 aware).

B1  TLC: IdLaw / TupleLaw of N2KCanId over (thorough) all 2^29 identifiers; Apalache: the
    same laws for unbounded naturals below 2^29 / 2^18 (symbolic).
B3  records from the real code (static header helpers over cross-sections of the space, and
    the identifier bytes inside real encoder packets + what the real frame decoders report)
    judged by TLC against Parse/Build (Trace_CanId).
sweep (thorough): the property's second sentence executed on all 2^29 identifiers.
"""
from __future__ import annotations

import contextlib
import json
import multiprocessing as mp
import random

from ..common import Check, workdir
from ..tlc import run_tlc, run_trace_tlc, run_apalache

BOUNDARY_FIELDS = [0, 255, 256, 59904, 60159, 60928, 61183, 61184, 61439, 61440, 61441, 65535,
                   65536, 126208, 126975, 126976, 130816, 131071, 131072, 196608, 258048, 262143]


def _cls(pgn_field: int) -> str:
    return "pdu1" if ((pgn_field >> 8) & 0xFF) < 240 else "pdu2"


def _wire_rows(rng: random.Random, per_pgn: int):
    """Public path: encoder packets -> identifier bytes -> frame decoders."""
    from nmea2000 import pgns
    from nmea2000.decoder import NMEA2000Decoder
    from nmea2000.encoder import NMEA2000Encoder
    rows, meta = [], []
    nums = sorted({int(n.split("_")[3]) for n in dir(pgns)
                   if n.startswith("is_fast_pgn_")})
    # one long-lived encoder / decoder per format, as a gateway client uses them: nothing they remember from an
    # earlier message (same PGN, source and priority, another destination) may show in a later identifier
    # (ONE encoder serves the three formats in turn - a bridge between two gateways - and one decoder per format)
    shared_enc = NMEA2000Encoder()
    live = {fmt: (shared_enc, NMEA2000Decoder()) for fmt in ("ebyte", "usb", "yd")}
    for pgn in nums:
        d0 = NMEA2000Decoder()
        try:
            fast = pgns.__dict__[f"is_fast_pgn_{pgn}"]()
            base = d0.decode_basic_string(
                "2020-01-01-00:00:00.000,3,%d,1,255,8,%s" % (pgn, ",".join(["00"] * 8)),
                already_combined=True)
        except Exception:
            continue
        if base is None:
            continue
        # the PGN number that differs only in the data-page bit (and the reserved bit) is unknown to the database for most PGNs:
        # the long-lived decoders see a frame of it first - an identifier of its own, which is never confused with this one
        for twin in (pgn ^ 0x10000, pgn ^ 0x20000):
            if twin not in nums and ((twin >> 8) & 0xFF) >= 240:
                from .. import clientrun as cr
                from .. import fastpacket as fp
                ident_t = (3 << 26) | (twin << 8) | 77
                for fmt in ("ebyte", "usb", "yd"):
                    try:
                        if fmt == "ebyte":
                            live[fmt][1].decode_tcp(bytes([0x88]) + ident_t.to_bytes(4, "big") + bytes(8))
                        elif fmt == "usb":
                            live[fmt][1].decode_usb(cr.usb_packet(ident_t, bytes(8)))
                        else:
                            live[fmt][1].decode_yacht_devices_string("00:00:00.000 R %08X 00 00 00 00 00 00 00 00" % ident_t)
                    except Exception:       # noqa: BLE001
                        pass
        for k in range(per_pgn + 1):
            if k < per_pgn or per_pgn == 0:
                src, prio = rng.randrange(256), rng.randrange(8)
                dst = rng.choice([0, 35, 254, 255, rng.randrange(256)])
            else:                                   # once more: same source and priority, another destination
                dst = (dst + 1 + rng.randrange(254)) % 256
            base.source, base.destination, base.priority = src, dst, prio
            for fmt in ("ebyte", "usb", "yd"):
                enc, dec = live[fmt]
                try:
                    if fmt == "ebyte":
                        pk = enc.encode_ebyte(base)
                        ident = int.from_bytes(pk[0][1:5], "big")
                        feed = dec.decode_tcp
                    elif fmt == "usb":
                        pk = enc.encode_usb(base)
                        ident = int.from_bytes(pk[0][5:9], "little")
                        feed = dec.decode_usb
                    else:
                        pk = enc.encode_yacht_devices(base)
                        ident = int(pk[0].split()[0], 16)
                        feed = lambda p: dec.decode_yacht_devices_string(  # noqa: E731
                            "00:00:00.000 R " + p.decode().strip())
                except ValueError:
                    break           # not encodable: outside this property's domain
                try:
                    outs = [feed(p) for p in pk]
                except Exception:
                    outs = [None]   # the decoder refused its own encoder's packet
                msg = outs[-1]
                if msg is None:
                    got = [-1, -1, -1, -1]      # judged by TLC as a round-trip failure
                else:
                    got = [msg.PGN, msg.source, msg.destination, msg.priority]
                rows.append([pgn, src, dst, prio, ident] + got)
                meta.append((pgn, fmt, fast))
    # the receive path of the gateway clients: the encoder's packets for an addressed PGN (ISO request) with addresses that look
    # like framing bytes of the serial protocol (0xAA, 0x55), like line ends or like nothing in particular, back to back on one
    # link; the requested PGN number tells the deliveries apart
    from .. import clientrun as cr
    import copy
    req = NMEA2000Decoder().decode_basic_string("2020-01-01-00:00:00.000,6,59904,1,255,3,00,ee,00", already_combined=True)
    pairs = [(0xAA, 0x55), (0x55, 0xAA), (0xAA, 0xAA), (0x55, 0x55), (0xAA, 255), (7, 0xAA), (0x0D, 0x0A), (0x0A, 0x0D), (0, 0), (255, 255),
             (254, 1)] + [(rng.randrange(256), rng.randrange(256)) for _ in range(12)]
    for kind, fmt_, enc_name in (("ebyte", "ebyte", "encode_ebyte"), ("yd", "yd", "encode_yacht_devices"), ("waveshare", "usb", "encode_usb")):
        enc, sent, packets = NMEA2000Encoder(), [], []
        for j, (src, dst) in enumerate(pairs):
            m = copy.deepcopy(req)
            m.source, m.destination, m.priority = src, dst, j % 8
            m.fields[0].value = m.fields[0].raw_value = 1000 + j
            try:
                pk = getattr(enc, enc_name)(m)
            except ValueError:
                continue
            ident = int.from_bytes(pk[0][1:5], "big") if kind == "ebyte" else int.from_bytes(pk[0][5:9], "little") if kind == "waveshare" \
                else int(pk[0].split()[0], 16)
            sent.append((1000 + j, src, dst, j % 8, ident))
            packets += [((b"00:00:00.000 R " + p) if kind == "yd" else p, "valid") for p in pk]
        got = {}
        for m in cr.deliveries(kind, packets):
            if m.PGN == 59904:
                got[m.fields[0].raw_value] = [m.PGN, m.source, m.destination, m.priority]
        for tag, src, dst, prio, ident in sent:
            rows.append([59904, src, dst, prio, ident] + got.get(tag, [-1, -1, -1, -1]))
            meta.append((59904, f"client-{kind}", False))
    return rows, meta


def _sweep_chunk(args):
    lo, hi = args
    from nmea2000.decoder import NMEA2000Decoder
    from nmea2000.encoder import NMEA2000Encoder
    ex, bu = NMEA2000Decoder._extract_header, NMEA2000Encoder._build_header
    bad = []
    for i in range(lo, hi):
        p, s, d, pr = ex(i)
        if bu(p, s, d, pr) != i or not (0 <= s < 256 and 0 <= d < 256 and 0 <= pr < 8 and 0 <= p < 262144):
            bad.append(i)
            if len(bad) > 20:
                break
    return bad


def record(tier: str, seed: int):
    from nmea2000.decoder import NMEA2000Decoder
    from nmea2000.encoder import NMEA2000Encoder
    rng = random.Random(seed)
    ex, bu = NMEA2000Decoder._extract_header, NMEA2000Encoder._build_header
    ids = [(6 << 26) | (f << 8) | 165 for f in range(1 << 18)]
    ids += [(p << 26) | (f << 8) | s for f in BOUNDARY_FIELDS for p in range(8) for s in range(256)]
    ids += [rng.randrange(1 << 29) for _ in range(200000 if tier == "thorough" else 20000)]
    parse = [[i, *ex(i)] for i in ids]
    reqs = [(f, 165, 35, 6) for f in range(1 << 18)]
    reqs += [(f, s, d, p) for f in BOUNDARY_FIELDS for s in range(256) for d in (35, 255) for p in (0, 6, 7)]
    reqs += [(f, 165, d, 6) for f in BOUNDARY_FIELDS for d in range(256)]
    reqs += [(rng.randrange(1 << 18), rng.randrange(256), rng.randrange(256), rng.randrange(8))
             for _ in range(200000 if tier == "thorough" else 20000)]
    build = [[*r, bu(*r)] for r in reqs]
    wire, meta = _wire_rows(rng, 8 if tier == "thorough" else 2)
    return {"parse": parse, "build": build, "wire": wire}, meta


LEVEL = "model_checking"


def model(chk: Check, tier: str):
    """B1: TLC (and Apalache) on the specification."""
    cfg = "MC_CanId_quick.cfg" if tier == "quick" else "MC_CanId_thorough.cfg"
    r = run_tlc("MC_CanId", cfg, name="MC_CanId", timeout=3000)
    for inv in r.violated:
        chk.violation(f"spec/{inv}", f"TLC: {inv} violated in MC_CanId ({cfg})", {"tlc": r.error_text()})
    chk.gate(r.distinct >= 16000, f"MC_CanId explored only {r.distinct} states")
    chk.add(states=r.distinct, transitions=r.generated, tlc_cfg=cfg,
            identifiers_covered_by_tlc=(r.distinct - 529) // 2 * 256 * (3 if tier == "quick" else 256),
            exhaustive=(tier == "thorough"))
    ok, out = run_apalache("Apa_CanId", inv="Inv", length=0, name="c05")
    if not ok:
        chk.violation("spec/apalache", "Apalache: IdRoundTrip/TupleRoundTrip not valid for all id < 2^29",
                      {"apalache": out[-1500:]})
    chk.add(apalache_unbounded_obligations=2, apalache_discharged=2 if ok else 0)


def bind(chk: Check, tier: str, seed: int):
    """B3: real code -> specification."""
    wd = workdir("C05")
    recs, meta = record(tier, seed)
    inp, outp = wd / "recs.json", wd / "verdicts.json"
    inp.write_text(json.dumps(recs))
    tr, verdicts = run_trace_tlc("Trace_CanId", "Trace_CanId.cfg", inp, outp, name="Trace_CanId")
    n = sum(len(v) for v in recs.values())
    chk.gate(verdicts["n"] == n, f"TLC judged {verdicts['n']} of {n} records")
    chk.gate(len(recs["wire"]) >= 300, f"only {len(recs['wire'])} public-path records")
    for b in verdicts["bad"]:
        row = recs[b["kind"]][b["k"] - 1]
        if b["kind"] == "parse":
            key = f"{b['c']}/{_cls((row[0] >> 8) & 0x3FFFF)}"
        elif b["kind"] == "build":
            key = f"{b['c']}/{_cls(row[0])}"
        else:
            pgn, fmt, fast = meta[b["k"] - 1]
            key = f"{b['c']}/{fmt}/{_cls(row[0])}"
        chk.violation(key, f"real code disagrees with N2KCanId on {b['kind']} row {row}", {"row": row})
    chk.add(traces_validated_against_impl=n, parse_rows=len(recs["parse"]), build_rows=len(recs["build"]),
            wire_rows=len(recs["wire"]), wire_pgns=len({m[0] for m in meta}))
    chk.sample({"parse_row[id,pgn,src,dst,prio]": recs["parse"][61184]})
    chk.sample({"build_row[pgn,src,dst,prio,id]": recs["build"][59904]})
    chk.sample({"wire_row[pgn,src,dst,prio,id_in_packet,decoded pgn,src,dst,prio]": recs["wire"][0],
                "format": meta[0][1]})

    # --- thorough: the property's own second sentence on all 2^29 ids ----
    if tier == "thorough":
        step = 1 << 22
        with mp.Pool(16) as pool:
            res = pool.map(_sweep_chunk, [(lo, lo + step) for lo in range(0, 1 << 29, step)])
        bad = [b for r_ in res for b in r_]
        for i in bad[:20]:
            chk.violation(f"sweep/{_cls((i >> 8) & 0x3FFFF)}", f"build(parse({i})) != {i} or out of range", {"id": i})
        chk.add(real_code_identifiers_swept=1 << 29)
    chk.assumptions += ["TLC/Apalache evaluate N2KCanId correctly",
                        "the harness reads the identifier bytes at the documented packet offsets"]


def run(tier: str, seed: int) -> int:
    chk = Check("C05", tier, seed, LEVEL)
    model(chk, tier)
    bind(chk, tier, seed)
    return chk.finish()


# in-memory mutants for --selftest (never written to /repo)
@contextlib.contextmanager
def mutant_drop_datapage():
    from nmea2000.decoder import NMEA2000Decoder as D
    orig = D._extract_header

    def bad(i):
        p, s, d, pr = orig(i)
        return p & 0xFFFF, s, d, pr
    D._extract_header = staticmethod(bad)
    try:
        yield
    finally:
        D._extract_header = staticmethod(orig)


@contextlib.contextmanager
def mutant_pdu_boundary_both():
    from nmea2000.decoder import NMEA2000Decoder as D
    from nmea2000.encoder import NMEA2000Encoder as E
    o1, o2 = D._extract_header, E._build_header

    def ex(i):
        s, raw, pr = i & 0xFF, (i >> 8) & 0x3FFFF, (i >> 26) & 7
        pf, ps = (raw >> 8) & 0xFF, raw & 0xFF
        if pf <= 0xF0:
            return raw & 0x3FF00, s, ps, pr
        return raw, s, 255, pr

    def bu(pgn, s, d, pr):
        pf = (pgn >> 8) & 0xFF
        f = (pgn & 0x3FF00) | (d if pf <= 0xF0 else pgn & 0xFF)
        return (pr & 7) << 26 | f << 8 | s & 0xFF
    D._extract_header, E._build_header = staticmethod(ex), staticmethod(bu)
    try:
        yield
    finally:
        D._extract_header, E._build_header = staticmethod(o1), staticmethod(o2)


MUTANTS = {"drop-datapage": mutant_drop_datapage, "pdu-boundary-0xF0-both-sides": mutant_pdu_boundary_both}
