"""C10 — PGN include/exclude filters are a pure selection of the unfiltered output.

B1  MC_Decoder (configuration family C10Cfgs: every list of up to two entries over {A, B, F, CLAIM}
    given by number and/or by id, exclude and include, plus no filter): a filtered decoder F and an
    unfiltered twin U of spec/N2KDecoder.tla receive the same histories of single frames, fast-packet
    frames, address claims, unknown PGNs, bad inputs (<= 3 inputs, 4 thorough); Selection (F returns
    exactly U's permitted messages, unchanged, at the same positions) and MapAgree (claims update the
    source map even when filtered) hold in every state - in particular dropping frames by number before
    reassembly is indistinguishable from selecting afterwards.
B2+B3  TLC generates behaviours of the larger configuration (3 sources, histories of 14 inputs, 14-byte
    fast-packet messages); each is replayed into real decoders built from the concrete configuration
    (entries as numbers or as ids in a random letter case) side by side with an unfiltered real decoder;
    the recorded histories are validated by TLC against N2KDecoder!Step (Trace_Decoder).
    Selection table: every configuration x every single kind of message (one-input histories).
"""
from __future__ import annotations

import contextlib
import json
import random

from .. import decoderrun as dr
from ..common import Check, workdir
from ..tlc import run_tlc, run_trace_tlc, simulate

LEVEL = "model_checking"
PROP = "C10"
OWN = ("F.unexpected-output", "F.missing-output", "F.wrong-message", "F.wrong-content")


def model(chk: Check, tier: str, prop: str = PROP):
    cfg = f"MC_Decoder_{prop}_thorough.cfg" if tier == "thorough" else f"MC_Decoder_{prop}.cfg"
    r = run_tlc("MC_Decoder", cfg, name="MC_Decoder", timeout=7200, heap="8g" if tier == "thorough" else "3g")
    for inv in r.violated:
        chk.violation(f"spec/{inv}", f"TLC: {inv} violated in MC_Decoder ({cfg})", {"tlc": r.error_text(80)})
    chk.gate(r.distinct > 100000, f"MC_Decoder explored only {r.distinct} states")
    chk.add(states=r.distinct, transitions=r.generated, tlc_cfg=cfg)


def run_traces(chk: Check, wd, prop: str, tier: str, seed: int, classify, directed=(), augment=None, more_traces=()):
    num, depth = {"quick": (600, 16), "thorough": (6000, 16), "selftest": (600 if prop == "C16" else 120, 16)}[tier]
    beh = simulate("MC_Decoder", f"MC_Decoder_sim{prop}.cfg", num=num, depth=depth, seed=seed + 7, name=f"dsim{prop}",
                   only={"ev", "cfg"})
    if augment is not None:
        beh = augment(list(beh))
    beh = list(beh) + list(directed)         # histories written down on purpose, in the format of the generated ones
    chk.add(directed_histories=len(directed))
    traces = dr.replay(beh, random.Random(seed)) + list(more_traces)      # (more_traces: histories run through real gateway clients)
    inp, outp = wd / "traces.json", wd / "verdicts.json"
    inp.write_text(json.dumps(traces))
    _, v = run_trace_tlc("Trace_Decoder", "Trace_Decoder.cfg", inp, outp, name=f"Trace_Decoder-{prop}", heap="3g")
    chk.gate(v["n"] == len(traces), "Trace_Decoder did not judge every history")
    other = {}
    for b in v["bad"]:
        tr = traces[b["t"] - 1]
        e = tr["evs"][b["l"] - 1]
        key = classify(b["c"], tr, e)
        if key is None:
            other[b["c"]] = other.get(b["c"], 0) + 1
            continue
        chk.violation(key, f"configuration {tr['cfg']} (entries {tr['entries']}), history step {b['l']}: input {short(e['in'])}: "
                           f"filtered decoder {short(e['obsF'])}, unfiltered {short(e['obsU'])}: {b['c']}",
                      {"cfg": tr["cfg"], "entries": tr["entries"], "history": [short(x["in"]) for x in tr["evs"][:b["l"]]],
                       "obsF": e["obsF"], "obsU": e["obsU"], "clause": b["c"]})
    for c, n in other.items():
        chk.notes.append(f"{n} deviations {c} belong to another property's check")
    outs = sum(1 for t in traces for e in t["evs"] if e["obsU"]["ret"] == "msg")
    drops = sum(1 for t in traces for e in t["evs"] if e["obsU"]["ret"] == "msg" and e["obsF"]["ret"] == "none")
    chk.add(traces_validated_against_impl=len(traces), events_replayed=sum(len(t["evs"]) for t in traces),
            messages_returned_unfiltered=outs, messages_filtered_out=drops,
            configurations=len({json.dumps(t["cfg"], sort_keys=True) for t in traces}))
    k = max(range(len(traces)), key=lambda i: len(traces[i]["evs"]))
    chk.sample({"cfg": traces[k]["cfg"], "entries": traces[k]["entries"],
                "history": [f"{short(e['in'])} -> F:{e['obsF']['ret']} U:{e['obsU']['ret']}" for e in traces[k]["evs"]][:16]})
    return traces, outs, drops


def short(x: dict) -> str:
    if "k" in x:
        return {"single": f"single {x['pgn']} src{x['src']}", "frame": f"frame F src{x['src']} seq{x['seq']} fc{x['fc']}" + ("" if x["chunk"] else " (truncated)"),
                "claim": f"claim src{x['src']} name{x['name']}", "unknown": f"unknown src{x['src']}", "bad": "bad input",
                "whole": f"whole F src{x['src']}"}.get(x["k"], x["k"])
    return f"{x['ret']} {x['pgn']} src{x['src']} ident{x['ident']}" if x["ret"] == "msg" else x["ret"]


def classify(clause: str, tr: dict, e: dict):
    """C10 owns deviations of the filtered decoder while its unfiltered twin conforms, and source-map disagreement"""
    side, what = clause.split(".", 1)
    if side == "F":
        filt = tr["cfg"]["mode"] != "none"
        return f"{what}/{tr['cfg']['mode']}/{'+'.join(['num'] * bool(tr['cfg']['nums']) + ['id'] * bool(tr['cfg']['ids'])) or 'empty'}/{e['in']['k']}" if filt else None
    return None


def directed_histories(tier: str):
    """filters naming, by id or by number, one of two PGNs whose ids begin alike ('temperature' and
    'temperatureExtendedRange'): an entry selects exactly the definition it names; plus re-claims under a filtered claim"""
    def single(p, s):
        return {"k": "single", "pgn": p, "src": s, "tok": []}

    def frames(s, q):
        return [{"k": "frame", "src": s, "seq": q, "fc": i, "len": 14, "chunk": [1]} for i in range(3)]
    hist = [{"k": "claim", "src": 1, "name": 1}, single("T1", 1), single("T2", 1), single("A", 1), single("T2", 2), single("T1", 2)] \
        + frames(1, 1) + [{"k": "claim", "src": 1, "name": 2}, single("T2", 1), single("T1", 1), single("B", 2)]
    out = []
    for mode in ("exclude", "include"):
        for nums, ids in (([], ["T1"]), ([], ["T2"]), (["T1"], []), (["T2"], []), (["A"], ["T1"]), (["T2"], ["T1"]), ([], ["T1", "CLAIM"]),
                          (["CLAIM"], ["T2"]), ([], ["T1", "T2"])):
            cfg = {"mode": mode, "nums": nums, "ids": ids, "mfrMode": "none", "mfrs": [], "netmap": False}
            out.append([("Init", {"cfg": cfg, "ev": {"k": "init"}})] + [("Directed", {"cfg": cfg, "ev": e}) for e in hist])
    # one input format from the first step to the last (a gateway speaks one format): claim, permitted and filtered traffic, a
    # fast message, a re-claim - under number-only, id-only and mixed lists that do not name the claim
    from ..decoderrun import FORMATS
    for fmt in FORMATS:
        def via(e, fmt=fmt):
            return dict(e, fmt=fmt if not (e["k"] == "frame" and fmt == "acti-late") else "tcp")
        h2 = [{"k": "claim", "src": 1, "name": 1}, single("A", 1), single("B", 1), {"k": "claim", "src": 2, "name": 2}, single("A", 2)] \
            + frames(1, 2) + [{"k": "claim", "src": 1, "name": 2}, single("A", 1), single("B", 2)]
        for mode in ("exclude", "include"):
            for nums, ids in ((["A"], []), (["A", "F"], []), ([], ["A"]), (["B"], ["A"]), ([], [])):
                cfg = {"mode": mode, "nums": nums, "ids": ids, "mfrMode": "none", "mfrs": [], "netmap": False}
                out.append([("Init", {"cfg": cfg, "ev": {"k": "init"}})] + [("Directed", {"cfg": cfg, "ev": via(e)}) for e in h2])
    return out if tier != "selftest" else out[::3]


def bind(chk: Check, tier: str, seed: int):
    wd = workdir(PROP)
    traces, outs, drops = run_traces(chk, wd, PROP, tier, seed, classify, directed=directed_histories(tier))
    chk.gate(outs > len(traces), "hardly any message was returned by the unfiltered decoders: vacuous")
    chk.gate(drops > len(traces) // 4, f"only {drops} messages were filtered out: the filters do not bite")
    chk.assumptions += ["kinds A/B/F/CLAIM stand for PGNs 127250/130306/128275/60928; ids are spelled in random letter case",
                        "message content is observed by re-encoding the returned message (C02)"]


def run(tier: str, seed: int) -> int:
    chk = Check(PROP, tier, seed, LEVEL)
    model(chk, tier)
    bind(chk, tier, seed)
    return chk.finish()


@contextlib.contextmanager
def mutant_case_sensitive_ids():
    from nmea2000.decoder import NMEA2000Decoder as D
    orig = D.split_pgn_list

    def bad(pgn_list):
        ints, strs = orig(pgn_list)
        return ints, [p for p in pgn_list if isinstance(p, str)]          # ids kept as spelled
    D.split_pgn_list = staticmethod(bad)
    try:
        yield
    finally:
        D.split_pgn_list = staticmethod(orig)


@contextlib.contextmanager
def mutant_claim_excluded_before_map():
    from nmea2000.decoder import NMEA2000Decoder as D
    orig = D._decode

    def bad(self, pgn, *a, **k):
        if pgn == 60928 and self.iso_claim_filter:
            return None                                                  # dropped before the source map is updated
        return orig(self, pgn, *a, **k)
    D._decode = bad
    try:
        yield
    finally:
        D._decode = orig


MUTANTS = {"id comparison case-sensitive": mutant_case_sensitive_ids,
           "excluded claims no longer update the source map": mutant_claim_excluded_before_map}
