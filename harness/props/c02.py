"""C02 — decoding then re-encoding a payload reproduces it on all defined bits.

B1  MC_CodecLaws (shared with C01) + MC_EncodeLaws: the specification's own encode/decode are
    inverse on every code (EncodeSet(DecodeTicks(c)) contains c) for all widths <= 8.
B3  every encodable definition (predicate on the database) x every payload of the C01 corpus the
    real decoder accepts: decode, re-encode through the public encoder, TLC compares the two
    payloads field by field (Trace_Codec MODE=C02).
B2' every-code sweep of the fields of <= 16 bits (all codes in the thorough tier, a stride in
    the quick tier): byte-identical round trips are counted, every other one is judged by TLC.
"""
from __future__ import annotations

import contextlib
import math
import multiprocessing as mp
import random

from .. import corpus, routes
from ..codec import load_db, validate
from ..common import SPEC, Check, workdir
from ..tlc import run_tlc

LEVEL = "translation_validation"


def payload_of_actisense(s: str) -> bytes:
    return bytes.fromhex(s.split()[2]) if len(s.split()) > 2 else b""


def roundtrip(dec, enc, d, payload: bytes, route: str = "actisense"):
    """returns None if the decoder does not accept the payload (outside the domain)"""
    try:
        msg = dec.decode_basic_string(corpus.basic_string(d["pgn"], payload), already_combined=True)
    except Exception:                      # noqa: BLE001
        return None
    if msg is None or msg.id != d["id"]:
        return None
    for f in msg.fields:
        if isinstance(f.value, float) and not math.isfinite(f.value):
            return None                     # non-finite floats are excepted by the property
    try:
        if route == "json":             # what the command line's encode and a replayed dump file do
            from nmea2000.message import NMEA2000Message
            msg = NMEA2000Message.from_json(msg.to_json())
        out = payload_of_actisense(enc.encode_actisense(msg)) if route in ("actisense", "json") else \
            routes.wire_payload(enc, route, msg, d["fast"] == "fast")
    except Exception as e:                 # noqa: BLE001
        return {"id": d["id"], "p": list(payload), "ret": "err", "e": [], "err": f"{type(e).__name__}: {e}"[:200]}
    return {"id": d["id"], "p": list(payload), "ret": "enc", "e": list(out), "err": ""}


def sweep_codes(f: dict, tier: str, rng: random.Random):
    n = f["len"]
    if n > 16:
        return []
    full = 1 << n
    if tier == "thorough" or n <= 9:
        return range(full)
    step = {"quick": 37, "selftest": 1021}[tier]
    start = rng.randrange(step)
    return sorted(set(range(start, full, step)) | {0, 1, full - 1, full - 2, full >> 1, (full >> 1) - 1})


def _sweep_def(job):
    d, tier, seed = job
    import logging
    logging.disable(logging.CRITICAL)
    from nmea2000.decoder import NMEA2000Decoder
    from nmea2000.encoder import NMEA2000Encoder
    dec, enc = NMEA2000Decoder(), NMEA2000Encoder()
    rng = random.Random(seed)
    swept = identical = 0
    recs, meta = [], []
    base = corpus.build_payload(d, {})
    base_int = int.from_bytes(base, "little")
    for i, f in enumerate(d["fields"]):
        if f["match"] != -1:
            continue
        for c in sweep_codes(f, tier, rng):
            p_int = (base_int & ~(((1 << f["len"]) - 1) << f["off"])) | (c << f["off"])
            payload = p_int.to_bytes(len(base), "little")
            o = roundtrip(dec, enc, d, payload)
            if o is None:
                continue
            swept += 1
            if o["ret"] == "enc" and bytes(o["e"]) == payload:
                identical += 1
                continue
            if len(recs) < 400:                   # per definition: enough to name every failing field
                recs.append(o)
                meta.append((d["id"], f"{i+1}:code"))
    return swept, identical, recs, meta


def model(chk: Check, tier: str):
    cfg = "MC_EncodeLaws_thorough.cfg" if tier == "thorough" else "MC_EncodeLaws_quick.cfg"
    r = run_tlc("MC_EncodeLaws", cfg, name="MC_EncodeLaws", timeout=3000,
                env={"DB_FILE": str(SPEC / "empty_db.json")})
    for inv in r.violated:
        chk.violation(f"spec/{inv}", f"TLC: {inv} violated in MC_EncodeLaws", {"tlc": r.error_text()})
    chk.gate(r.distinct > 500, f"MC_EncodeLaws explored only {r.distinct} states")
    chk.add(states=r.distinct, transitions=r.generated)


def bind(chk: Check, tier: str, seed: int):
    from nmea2000.decoder import NMEA2000Decoder
    from nmea2000.encoder import NMEA2000Encoder
    wd = workdir("C02")
    db, _ = load_db(wd)
    rng = random.Random(seed)
    dec, enc = NMEA2000Decoder(), NMEA2000Encoder()
    recs, meta = [], []
    n_random = {"quick": 6, "thorough": 60, "selftest": 2}[tier]
    encodable = [d for d in db["defs"] if d["encodable"]]
    accepted_by_def: dict[str, int] = {}
    encoded_by_def: dict[str, int] = {}
    for d in encodable:
        for tag, payload in corpus.payloads_for(d, rng, n_random, pairwise=(tier == "thorough")):
            o = roundtrip(dec, enc, d, payload)
            if o is None:
                continue
            accepted_by_def[d["id"]] = accepted_by_def.get(d["id"], 0) + 1
            if o["ret"] == "enc":
                encoded_by_def[d["id"]] = encoded_by_def.get(d["id"], 0) + 1
            recs.append(o)
            meta.append((d["id"], tag))
    # the other encode routes (EByte, USB and Yacht Devices packets; the payload is reassembled from the frames), each with one
    # long-lived encoder that meets the definitions in database order - the definitions of one PGN number one after the other
    shared_enc = NMEA2000Encoder()        # one encoder serves the packet routes in turn (a bridge between gateways of two makes)
    route_encs = {r: shared_enc for r in routes.ROUTES[1:]}
    n_routes = 0
    for d in encodable:
        extra = [(f"{i+1}:{name}", corpus.build_payload(d, {i: c})) for i, f in enumerate(d["fields"])
                 if f["type"] in ("TIME", "DATE", "DURATION") and f["off"] >= 0 for name, c in corpus.boundary_codes(f)]
        extra += [(f"{i+1}:odd", corpus.build_payload(d, {i: 9999 + 12345 * k})) for i, f in enumerate(d["fields"])
                  if f["type"] in ("TIME", "DURATION") and f["off"] >= 0 and f["len"] >= 24 for k in range(3)]
        for tag, payload in [("base", corpus.build_payload(d, {})), ("rand", corpus.build_payload(d, {}, rng))] + extra:
            ref = roundtrip(dec, enc, d, payload)
            if ref is None or ref["ret"] != "enc":
                continue                     # (judged above; the routes are compared where the plain route encodes)
            for r in routes.ROUTES[1:] + ("json",):
                o = roundtrip(dec, route_encs.get(r, enc), d, payload, r)
                if o is not None:
                    recs.append(o)
                    meta.append((d["id"], f"{tag}/via-{r}"))
                    n_routes += 1
    chk.add(payloads_through_other_encode_routes=n_routes)
    # every key of every lookup table once, through an encodable definition (decode by table, encode by raw value)
    for d, tag, payload in corpus.table_sweep(db, lambda d: d["encodable"]):
        o = roundtrip(dec, enc, d, payload)
        if o is not None:
            recs.append(o)
            meta.append((d["id"], tag))
    # every-code sweep (16 processes): identical round trips are only counted
    swept = identical = 0
    jobs = [(d, tier, seed + d["idx"]) for d in encodable]
    with mp.Pool(16) as pool:
        for sw, ident, rs, ms in pool.imap_unordered(_sweep_def, jobs, chunksize=4):
            swept += sw
            identical += ident
            recs += rs
            meta += ms
    # definitions the predicate admits but that never encode leave the domain (DRIFT, gated)
    never = sorted(i for i in accepted_by_def if i not in encoded_by_def)
    for i in never:
        chk.drift.append(f"definition {i} is admitted by Encodable but the library encodes none of its decodable payloads")
    chk.gate(tier == "selftest" or len(never) <= len(encodable) // 10,
             f"{len(never)} of {len(encodable)} encodable definitions never encode: cannot judge")
    judged = [r for r in recs if not (r["ret"] == "err" and r["id"] in never)]
    jm = [m for r, m in zip(recs, meta) if not (r["ret"] == "err" and r["id"] in never)]
    bad = validate("C02", judged, wd)
    # a refusal names no field: a single-field boundary payload attributes it to that field's raw value; a payload
    # combining several boundary values is attributed to a component that is refused on its own (same input class),
    # and stays a class of its own when no component is
    refused_alone = {(judged[i]["id"], jm[i][1]) for i, vs in bad for v in vs
                     if v["f"] == 0 and ":" in jm[i][1] and "+" not in jm[i][1]}
    for i, vs in bad:
        d = next(x for x in db["defs"] if x["id"] == judged[i]["id"])
        for v in vs:
            fid = d["fields"][v["f"] - 1]["id"] if v["f"] > 0 else "-"
            tag = jm[i][1]
            if v["f"] == 0 and ":" in tag:
                parts = [t for t in tag.split("+") if ":" in t]
                if len(parts) > 1:
                    parts = [t for t in parts if (d["id"], t) in refused_alone][:1]
                if len(parts) == 1:
                    fid = d["fields"][int(parts[0].split(":")[0]) - 1]["id"] + ":" + parts[0].split(":")[1]
            chk.violation(f"{v['c']}/{d['id']}/{fid}",
                          f"{d['id']} payload {bytes(judged[i]['p']).hex()} re-encodes to "
                          f"{bytes(judged[i]['e']).hex() or judged[i]['err']} ({jm[i][1]})",
                          {"def": d["id"], "payload": bytes(judged[i]["p"]).hex(), "reencoded": bytes(judged[i]["e"]).hex(),
                           "error": judged[i]["err"], "field": fid})
    chk.add(programs=len(encoded_by_def), disagreements_checked=len(judged) + identical, records=len(judged),
            sweep_roundtrips=swept, sweep_identical=identical, encodable_definitions=len(encodable),
            traces_validated_against_impl=len(judged))
    chk.sample({"def": jm[0][0], "payload": bytes(judged[0]["p"]).hex(), "reencoded": bytes(judged[0]["e"]).hex()})
    chk.assumptions += ["a byte-identical round trip in the every-code sweep satisfies the property without consulting TLC",
                        "Encodable(d) is a predicate on the database: fixed positions and only NUMBER/PGN/RESERVED/FLOAT/LOOKUP/DATE/TIME/DURATION fields"]


def run(tier: str, seed: int) -> int:
    chk = Check("C02", tier, seed, LEVEL)
    model(chk, tier)
    bind(chk, tier, seed)
    return chk.finish()


@contextlib.contextmanager
def mutant_int_instead_of_round():
    import nmea2000.pgns as P
    orig = P.encode_number

    def bad(value, bit_length, signed, resolution, offset=0):
        if value is None:
            return orig(value, bit_length, signed, resolution, offset)
        n = int((value - offset) / resolution)
        if signed and n < 0:
            n += 1 << bit_length
        return n
    P.encode_number = bad
    try:
        yield
    finally:
        P.encode_number = orig


@contextlib.contextmanager
def mutant_na_lost_for_signed():
    import nmea2000.pgns as P
    orig = P.encode_number

    def bad(value, bit_length, signed, resolution, offset=0):
        if value is None and signed:
            return (1 << bit_length) - 1
        return orig(value, bit_length, signed, resolution, offset)
    P.encode_number = bad
    try:
        yield
    finally:
        P.encode_number = orig


MUTANTS = {"encode_number truncates": mutant_int_instead_of_round, "NA of signed fields encoded as all ones": mutant_na_lost_for_signed}
