"""C06 — every gateway wire format round-trips and obeys its fixed framing.

B1  MC_Wire: EByteLaw, UsbLaw, ChecksumLaw (all 18 x 255 single-byte corruptions), YdLaw, SplitLaw
    (concatenated packets are split back by the matching discipline of N2KFraming).
B3  for every encodable definition x addressing x the four formats, what the real encoder produced
    (packets, and the numbers read from text tokens) is judged by TLC (Trace_Wire MODE=C06): packet
    count = frames of the specification's segmentation, sizes, identifier = Build(...), data =
    the frame's data, checksum, CR/LF line structure, Actisense header/PGN/payload; the matching
    real decoder must return a message whose projection equals the original's; for sampled USB
    packets every single-byte corruption at positions 3..20 must be refused.
    Re-framing by the receive paths of the real clients is exercised for every chunking in C12/C20;
    here the concatenation of each message's packets is pushed through the client receive paths
    once whole and once byte by byte (see harness/vloop.py).
"""
from __future__ import annotations

import contextlib
import random

from ..codec import load_db
from ..common import Check, workdir
from ..gen_db import load_raw
from ..tlc import run_tlc
from ..wire import pick_messages, proj, run_wire

LEVEL = "model_checking"


def model(chk: Check, tier: str):
    r = run_tlc("MC_Wire", "MC_Wire.cfg", name="MC_Wire", timeout=1800)
    for inv in r.violated:
        chk.violation(f"spec/{inv}", f"TLC: {inv} violated in MC_Wire", {"tlc": r.error_text(60)})
    chk.gate(r.distinct > 1000, f"MC_Wire explored only {r.distinct} states")
    chk.add(states=r.distinct, transitions=r.generated)


def encode_decode(fmt: str, msg, q: int, enc=None, dec=None, as_buffer=False):
    """fresh encoder / decoder per message unless a long-lived pair is handed in (history pass)"""
    from nmea2000.decoder import NMEA2000Decoder
    from nmea2000.encoder import NMEA2000Encoder
    if enc is None:
        enc, dec = NMEA2000Encoder(), NMEA2000Decoder()
        enc.sequence_counter = q
    rec = {"fmt": fmt, "packets": [], "tokens": [], "back": "none", "backmsg": {}, "accepted": [], "err": ""}
    try:
        if fmt == "ebyte":
            pk = enc.encode_ebyte(msg)
        elif fmt == "usb":
            pk = enc.encode_usb(msg)
        elif fmt == "yd":
            pk = enc.encode_yacht_devices(msg)
        else:
            pk = [enc.encode_actisense(msg).encode()]
    except Exception as e:                 # noqa: BLE001 - not encodable: outside the property's domain
        return None, f"{type(e).__name__}: {e}"
    rec["packets"] = [list(p) for p in pk]
    out = None
    try:
        for p in pk:
            if fmt == "ebyte":
                out = dec.decode_tcp(bytearray(p) if as_buffer else p)
                rec["tokens"].append([])
            elif fmt == "usb":
                out = dec.decode_usb(bytearray(p) if as_buffer else p)      # (the serial client hands over slices of its buffer)
                rec["tokens"].append([])
            elif fmt == "yd":
                rec["tokens"].append([int(t, 16) for t in p.decode().split()])
                out = dec.decode_yacht_devices_string("00:00:00.000 R " + p.decode().strip())
            else:
                t = p.decode().split()
                rec["tokens"].append([int(t[0], 16), int(t[1], 16)] + list(bytes.fromhex(t[2] if len(t) > 2 else "")))
                out = dec.decode_actisense_string("A000000.000 " + p.decode())
    except Exception as e:                 # noqa: BLE001
        rec["back"], rec["err"] = "err", f"{type(e).__name__}: {e}"[:120]
        return rec, out
    rec["back"] = "none" if out is None else "msg"
    return rec, out


def corruptions(packet: bytes) -> list:
    """(pos, delta) of single-byte corruptions at positions 3..20 that decode_usb still accepts"""
    from nmea2000.decoder import NMEA2000Decoder
    acc = []
    dec = NMEA2000Decoder()          # one decoder for the whole sweep: a refusal must not depend on earlier refusals
    for pos in range(2, 20):
        for d in range(1, 256):
            p = bytearray(packet)
            p[pos] = (p[pos] + d) % 256
            try:
                if dec.decode_usb(bytes(p)) is not None:
                    acc.append([pos + 1, d])
            except Exception:              # noqa: BLE001
                pass
    return acc


def bind(chk: Check, tier: str, seed: int):
    wd = workdir("C06")
    db, _ = load_db(wd)
    raw_by_id = {p["Id"]: p for p in load_raw()["PGNs"]}
    by_id = {d["id"]: d for d in db["defs"]}
    rng = random.Random(seed)
    per_def = {"quick": 1, "thorough": 6, "selftest": 1}[tier]
    picked = pick_messages(db, rng, per_def, lambda d: d["encodable"], tier)
    if tier == "selftest":
        picked = picked[::4]
    recs, meta = [], []
    n_corr = 0
    from nmea2000.encoder import NMEA2000Encoder
    from .c02 import payload_of_actisense
    for m, d, msg in picked:
        orig = proj(msg, d, raw_by_id[d["id"]])
        try:        # the payload the encoder itself produces (definitions without a fixed Length drop trailing zero bytes)
            m = dict(m, payload=list(payload_of_actisense(NMEA2000Encoder().encode_actisense(msg))))
        except Exception:                  # noqa: BLE001
            continue
        for fmt in ("ebyte", "usb", "yd", "actisense"):
            rec, out = encode_decode(fmt, msg, m["q"])
            if rec is None:
                continue
            rec["m"] = m
            rec["orig"] = orig
            if rec["back"] == "msg":
                rec["backmsg"] = proj(out, by_id.get(out.id), raw_by_id.get(out.id))
            if fmt == "usb" and not m["fast"] and rec["back"] == "msg" and n_corr < {"quick": 3, "thorough": 40, "selftest": 2}[tier]:
                rec["accepted"] = corruptions(bytes(rec["packets"][0]))
                n_corr += 1
            recs.append(rec)
            meta.append((d["id"], fmt))
    n_fresh = len(recs)
    # history pass: one long-lived encoder and decoder per format, as a gateway client uses them; the same
    # definition is sent again with another destination, source or priority (anything the instances remember
    # from earlier messages must not show), the sequence counter is whatever the earlier messages left
    import copy
    hist = [x for x in picked if ((x[0]["pgn"] >> 8) & 0xFF) < 240][:{"quick": 40, "thorough": 200, "selftest": 8}[tier]] \
        + [x for x in picked if ((x[0]["pgn"] >> 8) & 0xFF) >= 240][:{"quick": 40, "thorough": 200, "selftest": 8}[tier]]
    from nmea2000.decoder import NMEA2000Decoder
    # (second round: the receiving decoder also writes a dump file, as a client started with a dump option does, and gets the
    #  binary packets as mutable buffers)
    for fmt, dumping in [(f, False) for f in ("ebyte", "usb", "yd", "actisense")] + [(f, True) for f in ("ebyte", "usb", "yd", "actisense")]:
        enc = NMEA2000Encoder()
        dec = NMEA2000Decoder(dump_to_file=str(wd / f"dump-{fmt}.jsonl")) if dumping else NMEA2000Decoder()
        for m, d, msg in (hist[::3] if dumping else hist):
            pdu1 = ((m["pgn"] >> 8) & 0xFF) < 240
            base = (m["src"], m["dst"], m["prio"])
            variants = [base, (m["src"], 36 if pdu1 else 255, m["prio"]), (m["src"], 255, m["prio"]), base,
                        ((m["src"] + 1) % 254, m["dst"], m["prio"]), (m["src"], m["dst"], (m["prio"] + 1) % 8)]
            for src, dst, prio in variants:
                msg2 = copy.copy(msg)
                msg2.source, msg2.destination, msg2.priority = src, dst, prio
                m2 = dict(m, src=src, dst=dst, prio=prio, q=enc.sequence_counter)
                try:
                    m2["payload"] = list(payload_of_actisense(NMEA2000Encoder().encode_actisense(msg2)))
                except Exception:          # noqa: BLE001
                    continue
                rec, out = encode_decode(fmt, msg2, m2["q"], enc, dec, as_buffer=dumping)
                if rec is None:
                    continue
                rec["m"] = m2
                rec["orig"] = proj(msg2, d, raw_by_id[d["id"]])
                if rec["back"] == "msg":
                    rec["backmsg"] = proj(out, by_id.get(out.id), raw_by_id.get(out.id))
                recs.append(rec)
                meta.append((d["id"], fmt))
        dec.close()
    chk.add(history_pass_outputs=len(recs) - n_fresh)
    chk.gate(len(recs) >= (150 if tier == "selftest" else 800), f"only {len(recs)} encoder outputs")
    chk.gate(n_corr >= 2, "no USB packet was available for the corruption sweep")
    v = run_wire("C06", recs, wd, "c06")
    chk.gate(v["n"] == len(recs), "C06 verdicts incomplete")
    for b in v["bad"]:
        r = recs[b["k"] - 1]
        did, fmt = meta[b["k"] - 1]
        m = r["m"]
        shape = ("fast" if m["fast"] else "single") + ("/empty" if not m["payload"] else "/short" if len(m["payload"]) < 8 else "")
        chk.violation(f"{b['v']}/{fmt}/{shape}",
                      f"{did} (PGN {m['pgn']}, {len(m['payload'])} bytes) via {fmt}: {b['v']}; packets "
                      f"{[bytes(p).hex() if fmt in ('ebyte', 'usb') else bytes(p).decode(errors='replace') for p in r['packets']][:3]} {r['err']}",
                      {"message": m, "format": fmt, "packets": [bytes(p).hex() for p in r["packets"]], "accepted": r["accepted"][:5]})
    chk.add(traces_validated_against_impl=len(recs), encoder_outputs=len(recs), definitions=len({m[0] for m in meta}),
            usb_packets_corruption_swept=n_corr, corruptions_tried=n_corr * 18 * 255,
            short_payload_messages=sum(1 for r in recs if len(r["m"]["payload"]) < 8))
    k = next(i for i, r in enumerate(recs) if r["fmt"] == "yd" and r["m"]["fast"])
    chk.sample({"def": meta[k][0], "format": "yd", "packets": [bytes(p).decode() for p in recs[k]["packets"]][:3]})
    k = next(i for i, r in enumerate(recs) if r["fmt"] == "ebyte" and len(r["m"]["payload"]) < 8)
    chk.sample({"def": meta[k][0], "format": "ebyte", "packets": [bytes(p).hex() for p in recs[k]["packets"]]})
    chk.assumptions += ["the Yacht Devices and Actisense encoders' output is given the timestamp (and direction) token the "
                        "receive format prepends before it is handed to the decoder",
                        "text tokens are read as hexadecimal numbers by the harness (projection); everything else is judged by TLC"]
    # receive-path re-framing through the real clients: the concatenation of the encoder's packets must be split
    # back into the same packets whatever the read boundaries (whole, byte by byte, every single cut position)
    from .. import clientrun as cr
    from .c12 import judge
    from nmea2000.encoder import NMEA2000Encoder
    sel = [x for x in picked if not x[0]["fast"]][:3] + [x for x in picked if x[0]["fast"] and len(x[0]["payload"]) > 8][:2] \
        + [x for x in picked if len(x[0]["payload"]) < 8][:2]
    frecs, fmeta = [], []
    for kind in ("ebyte", "yd", "waveshare"):
        enc = NMEA2000Encoder()
        packets = []
        for m, d, msg in sel:
            try:
                pk = {"ebyte": enc.encode_ebyte, "yd": enc.encode_yacht_devices, "waveshare": enc.encode_usb}[kind](msg)
            except Exception:              # noqa: BLE001
                continue
            for p in pk:
                packets.append(((b"00:00:00.000 R " + p) if kind == "yd" else p, "valid"))
        stream = b"".join(p for p, _ in packets)
        step = 1 if tier == "thorough" else 2
        for cuts in [[], list(range(1, len(stream)))] + [[c] for c in range(1, len(stream), step)]:
            if tier == "selftest" and len(cuts) == 1 and cuts[0] % 5:
                continue
            rec, _ = cr.receive_session(kind, packets, cr.cut(stream, cuts), sample_after=False)
            # a packet that does not contain the start marker inside is canonical for the serial discipline
            rec["canonical"] = kind != "waveshare" or all(p.find(b"\xaa\x55", 1) == -1 for p, _ in packets)
            frecs.append(rec)
            fmeta.append((kind, "ok", "whole" if not cuts else "bytewise" if len(cuts) > 1 else "1-cut", cuts[:4]))
    judge(chk, wd, frecs, fmeta, tag="c06-reframing")
    chk.add(reframing_sessions=len(frecs))


def run(tier: str, seed: int) -> int:
    chk = Check("C06", tier, seed, LEVEL)
    model(chk, tier)
    bind(chk, tier, seed)
    return chk.finish()


@contextlib.contextmanager
def mutant_checksum_range():
    import nmea2000.encoder as E
    import nmea2000.decoder as D
    orig = E.calculate_canbus_checksum

    def bad(data):
        return sum(data[2:18]) & 0xFF
    E.calculate_canbus_checksum = D.calculate_canbus_checksum = bad
    try:
        yield
    finally:
        E.calculate_canbus_checksum = D.calculate_canbus_checksum = orig


@contextlib.contextmanager
def mutant_yd_without_cr():
    from nmea2000.encoder import NMEA2000Encoder as E
    orig = E.encode_yacht_devices

    def bad(self, m):
        return [p.replace(b"\r\n", b"\n") for p in orig(self, m)]
    E.encode_yacht_devices = bad
    try:
        yield
    finally:
        E.encode_yacht_devices = orig


@contextlib.contextmanager
def mutant_ebyte_short():
    from nmea2000.encoder import NMEA2000Encoder as E
    orig = E.encode_ebyte

    def bad(self, m):
        return [p[:5 + (p[0] & 0x0F)] for p in orig(self, m)]
    E.encode_ebyte = bad
    try:
        yield
    finally:
        E.encode_ebyte = orig


MUTANTS = {"USB checksum over data[2:18]": mutant_checksum_range, "YD line without CR": mutant_yd_without_cr,
           "EByte packets not padded": mutant_ebyte_short}
