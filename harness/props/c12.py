"""C12 — gateway clients deliver every decodable frame once, in order, for any chunking.

B1  MC_Framing: for every byte stream up to 7 (9 thorough) bytes over an alphabet with the markers
    and the line end, and every segmentation into reads, the read-by-read framing state machine of
    each discipline (fixed N, lines, marker + N) emits what reading the stream at once emits
    (ChunkIndependent), the bounded marker variant equals the unbounded one, held-back bytes are
    bounded, emitted packets have the discipline's shape.
B3  the four real clients run on the virtual-time loop against a simulated gateway; streams of valid,
    undecodable and unknown packets are delivered under many segmentations (all at once, byte by
    byte, every single cut position, random multi-cuts) x receive-callback behaviours (ok / raising /
    slow); each session's record (reads as delivered, packets, oracle identities, callback order,
    callbacks completed after each read) is judged by TLC against N2KFraming (Trace_Framing).
"""
from __future__ import annotations

import contextlib
import json
import random

from .. import clientrun as cr
from ..common import Check, workdir
from ..tlc import run_tlc, run_trace_tlc

LEVEL = "model_checking"


def model(chk: Check, tier: str):
    cfg = "MC_Framing_thorough.cfg" if tier == "thorough" else "MC_Framing_quick.cfg"
    r = run_tlc("MC_Framing", cfg, name="MC_Framing", timeout=3000, heap="6g" if tier == "thorough" else "2g")
    for inv in r.violated:
        chk.violation(f"spec/{inv}", f"TLC: {inv} violated in MC_Framing", {"tlc": r.error_text(60)})
    chk.gate(r.distinct > 100000, f"MC_Framing explored only {r.distinct} states")
    chk.add(states=r.distinct, transitions=r.generated)


def sessions(tier: str, seed: int, kinds=cr.vloop.CLIENTS):
    rng = random.Random(seed)
    recs, meta = [], []
    nmsg = {"quick": 4, "thorough": 6, "selftest": 3}[tier]
    msgs = cr.sample_messages(rng, nmsg)
    for kind in kinds:
        packets = cr.wire_packets(kind, msgs, rng)
        stream = b"".join(p for p, _ in packets)
        for cb_name, cb in (("ok", "ok"), ("raise-odd", lambda i: "raise" if i % 2 else "ok"), ("slow", "slow")):
            segs = cr.segmentations(len(stream), rng, tier)
            if cb_name != "ok":
                segs = segs[:2] + segs[2::7]
            for cuts in segs:
                rec, _ = cr.receive_session(kind, packets, cr.cut(stream, cuts), recv_cb=cb,
                                            sample_after=(cb_name != "slow" and len(cuts) < 40))
                if kind == "waveshare":
                    rec["canonical"] = False       # noise runs are not packets of the serial discipline: the model decides
                recs.append(rec)
                shape = "whole" if not cuts else "bytewise" if len(cuts) == len(stream) - 1 else f"{len(cuts)}-cut"
                meta.append((kind, cb_name, shape, cuts[:8]))
        # a stream in which packets repeat (identical single frames, a fast-packet message re-sent under the same
        # sequence counter with the same first frame, stray repeats of a last frame): the client must hand every
        # packet to its decoder, whatever it has seen before
        packets = cr.wire_packets(kind, cr.history_messages(rng), rng, with_bad=(tier == "thorough"))
        stream = b"".join(p for p, _ in packets)
        n = len(stream)
        segs = [[], list(range(1, n))] + [[c] for c in range(1, n, max(1, n // {"quick": 12, "thorough": 60, "selftest": 3}[tier]))]
        for _ in range({"quick": 6, "thorough": 40, "selftest": 1}[tier]):
            segs.append(sorted(rng.sample(range(1, n), rng.randint(2, 12))))
        for j, cuts in enumerate(segs):
            cb_name, cb = (("ok", "ok"), ("raise-odd", lambda i: "raise" if i % 2 else "ok"), ("slow", "slow"))[j % 3 if j > 1 else 0]
            rec, _ = cr.receive_session(kind, packets, cr.cut(stream, cuts), recv_cb=cb, sample_after=False)
            if kind == "waveshare":
                rec["canonical"] = False
            recs.append(rec)
            meta.append((kind, cb_name, "whole" if not cuts else "bytewise" if len(cuts) == n - 1 else f"{len(cuts)}-cut", cuts[:8]))
    return recs, meta


def judge(chk: Check, wd, recs, meta, tag="c12", mode="C12"):
    inp, outp = wd / f"{tag}.json", wd / f"{tag}-verdicts.json"
    inp.write_text(json.dumps(recs))
    _, v = run_trace_tlc("Trace_Framing", "Trace_Framing.cfg", inp, outp, name=f"Trace_Framing-{tag}", heap="3g",
                         extra_env={"MODE": mode})
    chk.gate(v["n"] == len(recs), "Trace_Framing did not judge every session")
    for b in v["bad"]:
        kind, cb, shape, cuts = meta[b["k"] - 1]
        r = recs[b["k"] - 1]
        if b["c"].startswith("MACHINERY"):
            chk.gate(False, f"{kind}: the harness stream is not canonical for its discipline ({b['c']})")
        chk.violation(f"{b['c']}/{kind}/callback={cb}/{shape if shape in ('whole', 'bytewise') else 'cuts'}",
                      f"{kind} client, callback {cb}, reads cut at {cuts}: delivered {r['delivered']} for tokens {r['tokens']}"
                      f"{' after=' + str(r['after']) if r['after'] else ''}",
                      {"client": kind, "callback": cb, "cuts": cuts, "delivered": r["delivered"], "tokens": r["tokens"],
                       "after": r["after"], "chunks": [bytes(c).hex() for c in r["chunks"]][:6]})
    return v


def bind(chk: Check, tier: str, seed: int):
    wd = workdir("C12")
    recs, meta = sessions(tier, seed)
    judge(chk, wd, recs, meta)
    per = {}
    for m in meta:
        per[m[0]] = per.get(m[0], 0) + 1
    chk.gate(all(per.get(k, 0) >= 10 for k in cr.vloop.CLIENTS), f"too few sessions per client: {per}")
    chk.gate(sum(len(r["delivered"]) for r in recs) > len(recs), "hardly anything was delivered: vacuous")
    chk.add(traces_validated_against_impl=len(recs), sessions_per_client=per,
            deliveries=sum(len(r["delivered"]) for r in recs))
    k = next(i for i, m in enumerate(meta) if m[0] == "waveshare" and m[2] not in ("whole", "bytewise"))
    chk.sample({"client": meta[k][0], "callback": meta[k][1], "cuts": meta[k][3], "tokens": recs[k]["tokens"],
                "delivered": recs[k]["delivered"], "after": recs[k]["after"]})
    chk.assumptions += ["a second decoder with the same settings is the content oracle for each packet; order, once-ness and "
                        "timing are judged by TLC", "virtual-time event loop (Python 3.12 asyncio internals); real StreamReader"]


def run(tier: str, seed: int) -> int:
    chk = Check("C12", tier, seed, LEVEL)
    model(chk, tier)
    bind(chk, tier, seed)
    return chk.finish()


@contextlib.contextmanager
def mutant_consumer_dies_on_exception():
    import nmea2000.ioclient as I
    orig = I.AsyncIOClient._process_queue

    async def bad(self):
        while self._state != I.State.CLOSED:
            data = await self.queue.get()
            if self.receive_callback:
                await self.receive_callback(data)           # no try/except
            self.queue.task_done()
    I.AsyncIOClient._process_queue = bad
    try:
        yield
    finally:
        I.AsyncIOClient._process_queue = orig


@contextlib.contextmanager
def mutant_lifo_queue():
    import asyncio
    import nmea2000.ioclient as I
    orig = I.asyncio.Queue
    I.asyncio.Queue = asyncio.LifoQueue
    try:
        yield
    finally:
        I.asyncio.Queue = orig


@contextlib.contextmanager
def mutant_serial_cut_19():
    import nmea2000.ioclient as I
    orig = I.WaveShareNmea2000Gateway._receive_impl

    async def bad(self):
        data = await self.reader.read(100)
        self._buffer.extend(data)
        while True:
            start = self._buffer.find(b"\xaa\x55")
            if start == -1 or start + 20 > len(self._buffer):
                break
            packet = self._buffer[start:start + 20]
            try:
                message = self.decoder.decode_usb(packet)
            except Exception:
                message = None
            if message is not None:
                await self.queue.put(message)
            self._buffer = self._buffer[start + 21:]
    I.WaveShareNmea2000Gateway._receive_impl = bad
    try:
        yield
    finally:
        I.WaveShareNmea2000Gateway._receive_impl = orig


MUTANTS = {"consumer without try/except": mutant_consumer_dies_on_exception, "LIFO queue": mutant_lifo_queue,
           "serial window advanced by 21": mutant_serial_cut_19}
