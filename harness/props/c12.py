"""C12 — gateway clients deliver every decodable frame once, in order, for any chunking.

B1  MC_Framing: for every byte stream up to 7 (9 thorough) bytes over an alphabet with the markers
    and the line end, and every segmentation into reads, the read-by-read framing state machine of
    each discipline (fixed N, lines, marker + N) emits what reading the stream at once emits
    (ChunkIndependent), the bounded marker variant equals the unbounded one, held-back bytes are
    bounded, emitted packets have the discipline's shape.
B3  the four real clients run on the virtual-time loop against a simulated gateway; streams of valid,
    undecodable and unknown packets are delivered under many segmentations (all at once, byte by
    byte, every single cut position, random multi-cuts) x receive-callback behaviours (ok / raising /
    slow); each session's record (reads as delivered, packets, oracle identities, callback order,
    callbacks completed after each read) is judged by TLC against N2KFraming (Trace_Framing).
"""
from __future__ import annotations

import contextlib
import json
import random

from .. import clientrun as cr
from ..common import Check, workdir
from ..tlc import run_tlc, run_trace_tlc

LEVEL = "model_checking"


def model(chk: Check, tier: str):
    cfg = "MC_Framing_thorough.cfg" if tier == "thorough" else "MC_Framing_quick.cfg"
    r = run_tlc("MC_Framing", cfg, name="MC_Framing", timeout=3000, heap="6g" if tier == "thorough" else "2g")
    for inv in r.violated:
        chk.violation(f"spec/{inv}", f"TLC: {inv} violated in MC_Framing", {"tlc": r.error_text(60)})
    chk.gate(r.distinct > 100000, f"MC_Framing explored only {r.distinct} states")
    chk.add(states=r.distinct, transitions=r.generated)


def sessions(tier: str, seed: int, kinds=cr.vloop.CLIENTS, wd=None):
    rng = random.Random(seed)
    recs, meta = [], []
    nmsg = {"quick": 4, "thorough": 6, "selftest": 3}[tier]
    msgs = cr.sample_messages(rng, nmsg)
    for kind in kinds:
        packets = cr.wire_packets(kind, msgs, rng)
        stream = b"".join(p for p, _ in packets)
        for cb_name, cb in (("ok", "ok"), ("raise-odd", lambda i: "raise" if i % 2 else "ok"), ("slow", "slow")):
            segs = cr.segmentations(len(stream), rng, tier)
            if cb_name != "ok":
                segs = segs[:2] + segs[2::7]
            for cuts in segs:
                rec, _ = cr.receive_session(kind, packets, cr.cut(stream, cuts), recv_cb=cb,
                                            sample_after=(cb_name != "slow" and len(cuts) < 40))
                if kind == "waveshare":
                    rec["canonical"] = False       # noise runs are not packets of the serial discipline: the model decides
                recs.append(rec)
                shape = "whole" if not cuts else "bytewise" if len(cuts) == len(stream) - 1 else f"{len(cuts)}-cut"
                meta.append((kind, cb_name, shape, cuts[:8]))
        # a stream in which packets repeat (identical single frames, a fast-packet message re-sent under the same
        # sequence counter with the same first frame, stray repeats of a last frame): the client must hand every
        # packet to its decoder, whatever it has seen before
        packets = cr.wire_packets(kind, cr.history_messages(rng), rng, with_bad=(tier == "thorough"))
        stream = b"".join(p for p, _ in packets)
        n = len(stream)
        segs = [[], list(range(1, n))] + [[c] for c in range(1, n, max(1, n // {"quick": 12, "thorough": 60, "selftest": 3}[tier]))]
        for _ in range({"quick": 6, "thorough": 40, "selftest": 1}[tier]):
            segs.append(sorted(rng.sample(range(1, n), rng.randint(2, 12))))
        for j, cuts in enumerate(segs):
            cb_name, cb = (("ok", "ok"), ("raise-odd", lambda i: "raise" if i % 2 else "ok"), ("slow", "slow"))[j % 3 if j > 1 else 0]
            rec, _ = cr.receive_session(kind, packets, cr.cut(stream, cuts), recv_cb=cb, sample_after=False)
            if kind == "waveshare":
                rec["canonical"] = False
            recs.append(rec)
            meta.append((kind, cb_name, "whole" if not cuts else "bytewise" if len(cuts) == n - 1 else f"{len(cuts)}-cut", cuts[:8]))
    recs2, meta2 = route_sessions(tier, seed, kinds, wd)
    return recs + recs2, meta + meta2


def claim_message(src: int):
    """an ISO address claim as a raw frame (the library cannot encode INDIRECT_LOOKUP fields)"""
    return ("raw", 60928, src, 255, 6, bytes.fromhex("e903e0e7008232c0"))


def route_sessions(tier: str, seed: int, kinds, wd):
    """the less-travelled ways of using a client: built with options (the reference decoder gets the same ones), the receive
    callback registered after connect() or replaced while the link is idle, the link lost and re-established between two parts of
    the traffic (one client, one decoder: what it learnt on the first link still holds on the second)"""
    from nmea2000.consts import PhysicalQuantities as PQ
    rng = random.Random(seed + 77)
    recs, meta = [], []
    for kind in kinds:
        hist = cr.history_messages(rng)
        # (two frames whose data contain the serial protocol's start marker: intact packets on a clean link are delivered all the same)
        marked = [("raw", 127250, 10, 255, 2, bytes([0xAA, 0x55, 0x20, 0x00, 0x00, 0x00, 0x00, 0xFC])),
                  ("raw", 127250, 0xAA, 255, 2, bytes([0x07, 0xAA, 0x55, 0x00, 0x00, 0x00, 0x00, 0xFC]))]
        msgs = [claim_message(s) for s in (10, 11, 12, 0xAA)] + hist[:4] + marked[:1] + [claim_message(40)] + hist[4:] + marked[1:]
        packets = cr.wire_packets(kind, msgs, rng, with_bad=False)
        stream = b"".join(p for p, _ in packets)
        n = len(stream)
        ends = []                       # packet boundaries
        pos = 0
        for p, _ in packets:
            pos += len(p)
            ends.append(pos)
        optsets = [("network-map", {"build_network_map": True}),
                   ("units", {"preferred_units": {PQ.ANGLE: "deg", PQ.TEMPERATURE: "C"}}),
                   ("exclude-id", {"exclude_pgns": ["gnssPositionData"]}),
                   ("include-mixed", {"include_pgns": [127250, "isoAddressClaim"]}),
                   ("network-map+manufacturer", {"build_network_map": True, "exclude_manufacturer_code": ["garmin"]}),
                   ("network-map+units", {"build_network_map": True, "preferred_units": {PQ.ANGLE: "deg"}})]
        if wd is not None:
            optsets.append(("dump", {"dump_to_file": str(wd / f"client-dump-{kind}.jsonl")}))
            optsets.append(("dump-filter+units", {"dump_to_file": str(wd / f"client-dump2-{kind}.jsonl"), "dump_pgns": [59904],
                                                  "preferred_units": {PQ.ANGLE: "deg"}}))
        # the address claim itself excluded by number: the decoder still learns the names from it (identity, network map and
        # manufacturer filters keep working) - a client that sorts frames out in front of its decoder has to do the same
        optsets += [("exclude-claim+network-map", {"exclude_pgns": [60928], "build_network_map": True}),
                    ("exclude-claim+manufacturer", {"exclude_pgns": [60928, 130306], "exclude_manufacturer_code": ["garmin"]}),
                    ("exclude-claim", {"exclude_pgns": [60928]}),
                    ("include-without-claim", {"include_pgns": [127250, 129029], "build_network_map": True})]
        if tier == "selftest":
            optsets = optsets[::3]
        for oname, kw in optsets:
            for cuts in ([], list(range(1, n)) if tier != "selftest" else [n // 2], sorted(rng.sample(range(1, n), 5))):
                rec, _ = cr.receive_session(kind, packets, cr.cut(stream, cuts), client_kwargs=kw, sample_after=False)
                if kind == "waveshare":
                    rec["canonical"] = False
                recs.append(rec)
                meta.append((kind, f"ok/options={oname}", "whole" if not cuts else "bytewise" if len(cuts) == n - 1 else f"{len(cuts)}-cut", cuts[:8]))
        mid = ends[len(ends) // 2]
        for oname, kw in (("none", {}), ("network-map", {"build_network_map": True})):
            # the link is lost between the two halves of the traffic
            rec, _ = cr.receive_session(kind, packets, [stream[:mid], stream[mid:]], client_kwargs=kw, sample_after=False, relink_before=1)
            if kind == "waveshare":
                rec["canonical"] = False
            recs.append(rec)
            meta.append((kind, f"ok/options={oname}/link-replaced", "2-cut", [mid]))
        # the receive callback set after connect(); another callback taking over while the link is idle
        for how, chunks in (("late", [stream]), ("late", [stream[:mid], stream[mid:]]), ("replace", [stream[:mid], stream[mid:]]),
                            ("replace", [stream[:ends[0]], stream[ends[0]:]])):
            rec, ev_ = cr.receive_session(kind, packets, chunks, sample_after=False, register=how)
            if kind == "waveshare":
                rec["canonical"] = False
            recs.append(rec)
            meta.append((kind, f"ok/callback-registered={how}", "whole" if len(chunks) == 1 else "2-cut", [len(chunks[0])]))
    return recs, meta


def judge(chk: Check, wd, recs, meta, tag="c12", mode="C12"):
    inp, outp = wd / f"{tag}.json", wd / f"{tag}-verdicts.json"
    inp.write_text(json.dumps(recs))
    _, v = run_trace_tlc("Trace_Framing", "Trace_Framing.cfg", inp, outp, name=f"Trace_Framing-{tag}", heap="3g",
                         extra_env={"MODE": mode})
    chk.gate(v["n"] == len(recs), "Trace_Framing did not judge every session")
    for b in v["bad"]:
        kind, cb, shape, cuts = meta[b["k"] - 1]
        r = recs[b["k"] - 1]
        if b["c"].startswith("MACHINERY"):
            chk.gate(False, f"{kind}: the harness stream is not canonical for its discipline ({b['c']})")
            continue
        chk.violation(f"{b['c']}/{kind}/callback={cb}/{shape if shape in ('whole', 'bytewise') else 'cuts'}",
                      f"{kind} client, callback {cb}, reads cut at {cuts}: delivered {r['delivered']} for tokens {r['tokens']}"
                      f"{' after=' + str(r['after']) if r['after'] else ''}",
                      {"client": kind, "callback": cb, "cuts": cuts, "delivered": r["delivered"], "tokens": r["tokens"],
                       "after": r["after"], "chunks": [bytes(c).hex() for c in r["chunks"]][:6]})
    return v


def system_part(chk: Check, wd, tier: str, seed: int):
    """the composed specification N2KSystem: model-checked for a generated script, its behaviours replayed into real
    clients (TLC chooses the reads), the runs validated by TLC (Trace_System)"""
    from .. import systemrun as sr
    from ..tlc import simulate
    rng = random.Random(seed + 5)
    script = sr.make_script(rng, {"quick": 7, "thorough": 9, "selftest": 6}[tier])
    sfile = wd / "script.json"
    sfile.write_text(json.dumps(script))
    states = runs = 0
    fmts = ("ebyte", "usb", "yd", "actisense")
    for fmt in fmts:
        # the bytes the specification renders for the script
        empty, out0 = wd / f"sys-empty-{fmt}.json", wd / f"sys-stream-{fmt}.json"
        empty.write_text("[]")
        _, v0 = run_trace_tlc("Trace_System", f"Trace_System_{fmt}_NoFilter.cfg", empty, out0, name=f"Trace_System-{fmt}-stream",
                              extra_env={"SCRIPT_FILE": str(sfile)})
        stream = bytes(v0["stream"])
        chk.gate(len(stream) >= 60, f"the rendered stream has only {len(stream)} bytes")
        names = list(sr.CFGS)
        # quick: one decoder configuration per format (all three are used), thorough: every combination
        for cfgname in (names if tier == "thorough" else [names[(fmts.index(fmt) + seed) % 3]]):
            cfg = f"MC_System_{fmt}_{cfgname}.cfg"
            if tier != "selftest":
                r = run_tlc("MC_System", cfg, name=f"MC_System-{fmt}-{cfgname}", env={"SCRIPT_FILE": str(sfile)}, timeout=3000, heap="3g")
                for inv in r.violated:
                    chk.violation(f"spec/system/{inv}", f"TLC: {inv} violated in MC_System ({cfg})", {"tlc": r.error_text(60)})
                chk.gate(r.distinct > 500, f"MC_System explored only {r.distinct} states ({cfg})")
                states += r.distinct
            behs = simulate("MC_System", cfg, num={"quick": 32, "thorough": 160, "selftest": 8}[tier], depth=60, seed=seed + 11,
                            env={"SCRIPT_FILE": str(sfile)}, name=f"MC_System-{fmt}-{cfgname}", only={"ev"})
            recs, meta = [], []
            for b, beh in enumerate(behs):
                reads = [st["ev"]["n"] for _, st in beh[1:] if st["ev"]["k"] == "read"]
                left = len(stream) - sum(reads)
                if left > 0:
                    reads.append(left)              # the rest of the bytes in one last read
                chunks, pos = [], 0
                for n in reads:
                    chunks.append(stream[pos:pos + n])
                    pos += n
                cb = ("ok", lambda i: "raise" if i % 2 else "ok", "slow")[b % 3]
                o = sr.run(fmt, cfgname, chunks, recv_cb=cb, gap=3.0 if cb == "slow" else 2.0)
                recs.append({"reads": reads, "after": o["after"], "msgs": o["msgs"]})
                meta.append((fmt, cfgname, ("ok", "raise-odd", "slow")[b % 3], reads[:10]))
            inp, outp = wd / f"sys-{fmt}-{cfgname}.json", wd / f"sys-{fmt}-{cfgname}-out.json"
            inp.write_text(json.dumps(recs))
            _, v = run_trace_tlc("Trace_System", f"Trace_System_{fmt}_{cfgname}.cfg", inp, outp, name=f"Trace_System-{fmt}-{cfgname}",
                                 extra_env={"SCRIPT_FILE": str(sfile)}, heap="3g")
            chk.gate(v["n"] == len(recs), "Trace_System did not judge every run")
            for bad in v["bad"]:
                fmt_, cfg_, cb, reads = meta[bad["k"] - 1]
                c = bad["v"]["c"]
                if c.startswith("MACHINERY"):
                    chk.gate(False, f"system replay: {c}")
                    continue
                r_ = recs[bad["k"] - 1]
                chk.violation(f"{c}/{sr.KIND[fmt_]}/callback={cb}",
                              f"{sr.KIND[fmt_]} client, decoder configuration {cfg_}, callback {cb}, reads {reads}..: {c} at read "
                              f"{bad['v']['k']}; delivered so far {r_['after']}, messages {[(m['pgn'], m['src']) for m in r_['msgs']]}",
                              {"format": fmt_, "configuration": cfg_, "callback": cb, "reads": r_["reads"], "after": r_["after"],
                               "messages": r_["msgs"], "script": script})
            runs += len(recs)
    chk.add(system_states=states, system_runs_replayed=runs, system_script_items=len(script))
    chk.gate(runs >= (20 if tier == "selftest" else 100), f"only {runs} system behaviours were replayed")


def bind(chk: Check, tier: str, seed: int):
    wd = workdir("C12")
    system_part(chk, wd, tier, seed)
    recs, meta = sessions(tier, seed, wd=wd)
    judge(chk, wd, recs, meta)
    per = {}
    for m in meta:
        per[m[0]] = per.get(m[0], 0) + 1
    chk.gate(all(per.get(k, 0) >= 10 for k in cr.vloop.CLIENTS), f"too few sessions per client: {per}")
    chk.gate(sum(len(r["delivered"]) for r in recs) > len(recs), "hardly anything was delivered: vacuous")
    chk.add(traces_validated_against_impl=len(recs), sessions_per_client=per,
            deliveries=sum(len(r["delivered"]) for r in recs))
    k = next(i for i, m in enumerate(meta) if m[0] == "waveshare" and m[2] not in ("whole", "bytewise"))
    chk.sample({"client": meta[k][0], "callback": meta[k][1], "cuts": meta[k][3], "tokens": recs[k]["tokens"],
                "delivered": recs[k]["delivered"], "after": recs[k]["after"]})
    chk.assumptions += ["a second decoder with the same settings is the content oracle for each packet; order, once-ness and "
                        "timing are judged by TLC", "virtual-time event loop (Python 3.12 asyncio internals); real StreamReader"]


def run(tier: str, seed: int) -> int:
    chk = Check("C12", tier, seed, LEVEL)
    model(chk, tier)
    bind(chk, tier, seed)
    return chk.finish()


@contextlib.contextmanager
def mutant_consumer_dies_on_exception():
    import nmea2000.ioclient as I
    orig = I.AsyncIOClient._process_queue

    async def bad(self):
        while self._state != I.State.CLOSED:
            data = await self.queue.get()
            if self.receive_callback:
                await self.receive_callback(data)           # no try/except
            self.queue.task_done()
    I.AsyncIOClient._process_queue = bad
    try:
        yield
    finally:
        I.AsyncIOClient._process_queue = orig


@contextlib.contextmanager
def mutant_lifo_queue():
    import asyncio
    import nmea2000.ioclient as I
    orig = I.asyncio.Queue
    I.asyncio.Queue = asyncio.LifoQueue
    try:
        yield
    finally:
        I.asyncio.Queue = orig


@contextlib.contextmanager
def mutant_serial_cut_19():
    import nmea2000.ioclient as I
    orig = I.WaveShareNmea2000Gateway._receive_impl

    async def bad(self):
        data = await self.reader.read(100)
        self._buffer.extend(data)
        while True:
            start = self._buffer.find(b"\xaa\x55")
            if start == -1 or start + 20 > len(self._buffer):
                break
            packet = self._buffer[start:start + 20]
            try:
                message = self.decoder.decode_usb(packet)
            except Exception:
                message = None
            if message is not None:
                await self.queue.put(message)
            self._buffer = self._buffer[start + 21:]
    I.WaveShareNmea2000Gateway._receive_impl = bad
    try:
        yield
    finally:
        I.WaveShareNmea2000Gateway._receive_impl = orig


MUTANTS = {"consumer without try/except": mutant_consumer_dies_on_exception, "LIFO queue": mutant_lifo_queue,
           "serial window advanced by 21": mutant_serial_cut_19}
