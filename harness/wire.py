"""Shared driver for the wire-format properties (C06, C07)."""
from __future__ import annotations

import json
import random
from pathlib import Path

from . import corpus, project
from .tlc import run_trace_tlc


def run_wire(mode: str, recs: list, wd: Path, tag: str):
    inp, outp = wd / f"{tag}-in.json", wd / f"{tag}-out.json"
    inp.write_text(json.dumps(recs))
    _, v = run_trace_tlc("Trace_Wire", "Trace_Wire.cfg", inp, outp, name=f"Trace_Wire-{tag}",
                         extra_env={"MODE": mode}, heap="2g", timeout=3000)
    return v


def pick_messages(db, rng: random.Random, per_def: int, want, tier: str):
    """messages (as the specification sees them) for definitions accepted by `want`, each with a payload the
    real decoder accepts under that definition"""
    from nmea2000.decoder import NMEA2000Decoder
    dec = NMEA2000Decoder()
    out = []
    for d in db["defs"]:
        if not want(d) or d["fast"] not in ("single", "fast"):
            continue
        got = 0
        for attempt in range(per_def * 3):
            payload = corpus.build_payload(d, {}, rng if attempt else None)
            if d["fast"] == "single" and len(payload) > 8:
                break
            if d["fast"] == "fast" and len(payload) > 223:
                break
            pf = (d["pgn"] >> 8) & 0xFF
            src, prio = rng.randrange(0, 254), rng.randrange(8)
            dst = rng.choice([0, 35, 254, 255]) if pf < 240 else 255
            try:
                msg = dec.decode_basic_string(corpus.basic_string(d["pgn"], payload, src=src, dst=dst, prio=prio),
                                              already_combined=True)
            except Exception:              # noqa: BLE001
                continue
            if msg is None or msg.id != d["id"]:
                continue
            out.append(({"pgn": d["pgn"], "src": src, "dst": dst, "prio": prio, "payload": list(payload),
                         "fast": d["fast"] == "fast", "q": rng.randrange(8)}, d, msg))
            got += 1
            if got >= per_def:
                break
    return out


def proj(msg, d, rawdef) -> dict:
    p = project.pmsg(msg, d, rawdef)
    p.update(src=msg.source, dst=msg.destination, prio=msg.priority)
    return p
