"""Shared driver for the wire-format properties (C06, C07)."""
from __future__ import annotations

import json
import random
from pathlib import Path

from . import corpus, project
from .tlc import run_trace_tlc


def run_wire(mode: str, recs: list, wd: Path, tag: str, shard: int = 600):
    """records -> Trace_Wire verdicts; large inputs are judged in shards of `shard` records by parallel JVMs
    (TLC holds the whole deserialised input in memory) and the answers are stitched together"""
    from concurrent.futures import ThreadPoolExecutor
    parts = [recs[i:i + shard] for i in range(0, len(recs), shard)] or [[]]

    def one(j):
        inp, outp = wd / f"{tag}-in{j}.json", wd / f"{tag}-out{j}.json"
        inp.write_text(json.dumps(parts[j]))
        _, v = run_trace_tlc("Trace_Wire", "Trace_Wire.cfg", inp, outp, name=f"Trace_Wire-{tag}{j}",
                             extra_env={"MODE": mode}, heap="2g", timeout=3000)
        return v
    with ThreadPoolExecutor(min(8, len(parts))) as ex:
        outs = list(ex.map(one, range(len(parts))))
    if mode == "EMIT":
        return [x for o in outs for x in o]
    bad = [dict(b, k=b["k"] + j * shard) for j, o in enumerate(outs) for b in o["bad"]]
    return {"n": sum(o["n"] for o in outs), "bad": bad}


def pick_messages(db, rng: random.Random, per_def: int, want, tier: str):
    """messages (as the specification sees them) for definitions accepted by `want`, each with a payload the
    real decoder accepts under that definition"""
    from nmea2000.decoder import NMEA2000Decoder
    dec = NMEA2000Decoder()
    out = []
    for d in db["defs"]:
        if not want(d) or d["fast"] not in ("single", "fast"):
            continue
        got = 0
        for attempt in range(per_def * 3):
            payload = corpus.build_payload(d, {}, rng if attempt else None)
            if d["fast"] == "single" and len(payload) > 8:
                break
            if d["fast"] == "fast" and len(payload) > 223:
                break
            pf = (d["pgn"] >> 8) & 0xFF
            src, prio = rng.randrange(0, 254), rng.randrange(8)
            dst = rng.choice([0, 35, 254, 255]) if pf < 240 else 255
            try:
                msg = dec.decode_basic_string(corpus.basic_string(d["pgn"], payload, src=src, dst=dst, prio=prio),
                                              already_combined=True)
            except Exception:              # noqa: BLE001
                continue
            if msg is None or msg.id != d["id"]:
                continue
            out.append(({"pgn": d["pgn"], "src": src, "dst": dst, "prio": prio, "payload": list(payload),
                         "fast": d["fast"] == "fast", "q": rng.randrange(8)}, d, msg))
            got += 1
            if got >= per_def:
                break
    return out


def proj(msg, d, rawdef) -> dict:
    p = project.pmsg(msg, d, rawdef)
    p.update(src=msg.source, dst=msg.destination, prio=msg.priority)
    return p
