"""Fault and close() injection into real client sessions (C13, C14).

A session: connect() at t = 0 against a gateway that refuses the first `refuse` attempts; once a
connection is accepted a frame is fed one second later; one disturbance (a fault on the link, a
failing send, close(), a second connect()) is injected at a given loop step or time; the gateway
keeps accepting; a probe frame is fed on the latest link near the end; the session runs long enough
for every back-off to expire.  The event log is mapped to the alphabet of N2KClientMon.
"""
from __future__ import annotations

import random

from . import clientrun as cr
from . import vloop

T_END = 70.0


class Plan(vloop.Script):
    def __init__(self, refuse: int = 0, pending: float | None = None, write_fail_after: int | None = None):
        self.refuse, self.pending, self.write_fail_after = refuse, pending, write_fail_after
        self.accept_hooks = []
        self.total_writes = 0

    def open_result(self, k):
        res = "refuse" if k <= self.refuse else "accept"
        if self.pending is not None and k == self.refuse + 1:
            return ("pending", self.pending, res)
        return res

    def on_accept(self, sess, conn):
        for h in self.accept_hooks:
            h(sess, conn)

    def write_fails(self, conn, nth):
        self.total_writes += 1
        return self.write_fail_after is not None and self.total_writes > self.write_fail_after


RUNS = [0]


def valid_packet(kind: str, i: int) -> bytes:
    msgs = cr.sample_messages(random.Random(3), 3)
    return cr.wire_packets(kind, [msgs[i]], random.Random(0), with_bad=False)[0][0]


def iso_request():
    from nmea2000.message import NMEA2000Message
    return NMEA2000Message.from_json(
        '{"PGN":59904,"id":"isoRequest","description":"ISO Request","fields":[{"id":"pgn","name":"PGN","description":null,'
        '"unit_of_measurement":null,"value":60928,"raw_value":60928,"physical_quantities":null,"type":[13],'
        '"part_of_primary_key":false}],"source":0,"destination":255,"priority":6,"timestamp":"2012-06-17T15:02:11",'
        '"source_iso_name":null,"hash":null}')


def run(kind: str, plan: Plan, inject=None, status_cb="ok", t_end: float = T_END, client_kwargs: dict | None = None):
    """inject(sess) is called once the client exists; it schedules the disturbance(s)"""
    sess = vloop.Session(plan)
    state = {"last_disturbance": 0.0, "probe_fed": False, "deliveries_at_probe": 0}
    a_pkt, p_pkt = valid_packet(kind, 0), valid_packet(kind, 1)

    fed: list[tuple[float, int]] = []          # (time, connection) of every complete valid packet fed on a healthy link

    def feed_valid(s, conn, pkt):
        if state.get("split_until", 0.0) > s.loop.time():      # a frame is being fed in two halves: wait for its end
            s.at_time(state["split_until"] + 0.05, lambda: feed_valid(s, conn, pkt))
            return
        r = s.readers.get(conn)
        if r is None or r.at_eof() or r.exception() is not None or s.writers[conn].closed:
            return
        if s.client is not None and s.client.state.name == "CLOSED":
            return
        fed.append((s.loop.time(), conn))
        s.feed(conn, pkt)

    def on_accept(s, conn):
        if client_kwargs and client_kwargs.get("build_network_map"):
            # with network mapping on nothing of a source is delivered before it has claimed: the sources of the harness's
            # frames claim first on every link (claims are deliveries too, never counted as due)
            claims = b"".join(p for p, _ in cr.wire_packets(kind, [("raw", 60928, 10 + j, 255, 6, bytes.fromhex("e903e0e7008232c0"))
                                                                 for j in range(3)], random.Random(0), with_bad=False))
            s.at_time(s.loop.time() + 0.5, lambda: s.readers[conn].at_eof() or s.readers[conn].exception() is not None
                      or s.writers[conn].closed or s.feed(conn, claims))
        s.at_time(s.loop.time() + 1.0, lambda: feed_valid(s, conn, a_pkt))
    plan.accept_hooks.append(on_accept)

    def scenario(s: vloop.Session):
        s.user("connect", s.client.connect)
        if inject:
            inject(s, state)

        def probe():
            if not s.readers:
                return
            conn = max(s.readers)
            r = s.readers[conn]
            if r.at_eof() or r.exception() is not None or s.writers[conn].closed:
                return
            state["probe_fed"] = True
            state["deliveries_at_probe"] = len(s.delivered)
            feed_valid(s, conn, p_pkt)
        s.at_time(t_end - 4.0, probe)

    # every fourth session has a second client object in the process (another gateway of another kind, busy connecting, being
    # refused, reading and losing its link all the time): what it does is nobody's business but its own
    RUNS[0] += 1
    by = None
    if RUNS[0] % 4 == 0:
        bkind = vloop.CLIENTS[(RUNS[0] // 4) % 4]
        by = (bkind, valid_packet(bkind, 1) * 3)
    raw = sess.run(vloop.make_client_factory(kind, **(client_kwargs or {})), scenario, until=t_end, status_cb=status_cb, bystander=by)
    end = raw[-1]
    # facts the harness knows about the scenario (not verdicts)
    last_refuse = max([e["t"] for e in raw if e["e"] == "OpenResult" and e["r"] == "refuse"] + [0.0])
    last_dist = max(state["last_disturbance"], last_refuse)
    settled = (t_end - last_dist) >= 30.0
    probe_lost = state["probe_fed"] and len(sess.delivered) <= state["deliveries_at_probe"]
    # every complete frame fed on a healthy link must be delivered, unless a fault hit that link right after it
    # (a reset discards what the reader has not yet handed over) or the client was being closed
    faults = [(e["t"], e["conn"]) for e in raw if e["e"] in ("Eof", "Reset", "WriteError", "Banner")]
    closed_at = next((e["t"] for e in raw if e["e"] == "Call" and e.get("f") == "close"), None)
    accepts = [(e["t"], e["k"]) for e in raw if e["e"] == "OpenResult" and e["r"] == "accept"]
    due = sum(1 for (tf, c) in fed if not any(fc == c and ft <= tf + 0.5 for ft, fc in faults)      # the link was and stayed healthy
              and not any(k > c and ta <= tf + 0.5 for ta, k in accepts)       # c was still the client's link
              and (closed_at is None or tf + 0.5 < closed_at))
    if closed_at is None and len(sess.delivered) < due:
        probe_lost = True
    starved = sess.beats < int(end["t"]) - 2
    return to_monitor(raw, settled, probe_lost, starved), raw


def ev(e, src, **kw):
    out = {"e": e, "st": src.get("st", ""), "t": int(round(src.get("t", 0) * 1000)), "k": 0, "s": "", "conn": 0, "r": ""}
    out.update(kw)
    return out


def to_monitor(raw, settled: bool, probe_lost: bool, starved: bool):
    out = []
    for x in raw:
        e = x["e"]
        if e == "Call" and x["f"] in ("connect", "close"):
            out.append(ev("CallConnect" if x["f"] == "connect" else "CallClose", x))
        elif e == "Ret" and x["f"] in ("connect", "close"):
            if x["f"] == "close" and x.get("exc") in ("TimeoutError", "CancelledError"):
                continue                 # a close() the caller abandoned (wait_for) has not returned
            out.append(ev("RetConnect" if x["f"] == "connect" else "RetClose", x))
        elif e == "Open":
            out.append(ev("Open", x, k=x["k"]))
        elif e == "OpenResult":
            out.append(ev("OpenResult", x, k=x["k"], r=x["r"]))
        elif e == "Status":
            out.append(ev("Status", x, s=x["s"]))
        elif e in ("ReadStart", "ReadEnd", "ReadCancelled", "WriteError", "WriterClose"):
            out.append(ev(e, x, conn=x["conn"]))
        elif e in ("Eof", "Reset"):
            out.append(ev("Fault", x, conn=x["conn"]))
        elif e in ("Deliver", "Spin"):
            out.append(ev(e, x))
        elif e == "End":
            s = "starved" if starved else ("probe-lost" if probe_lost else "")
            out.append(ev("End", x, k=x["tasks"], r="settled" if settled and not x.get("spin") else "", s=s))
    return out


def conformance_log(raw):
    """the events the implementation-shaped model (N2KClient) emits, in recorded order, up to the end of the session"""
    res = []
    for x in raw:
        if x["e"] == "End":
            break
        if x["e"] == "Feed":
            res.append(ev("Feed", x, conn=x["conn"]))
        else:
            res += [e for e in to_monitor([x], False, False, False) if e["e"] != "Spin"]
    return res
