"""Replay of TLC-generated behaviours of MC_Decoder into real NMEA2000Decoder objects (C10, C11, C16).

Abstract -> concrete: PGN kinds A/B/F/CLAIM/UNK -> 127250 / 130306 / 128275 / 60928 / a PGN absent from
the database; filter entries by number or by id (the id is spelled in a random letter case);
NAMEs 1/2/3 -> address-claim payloads of Garmin / BEP Marine (names shared by several manufacturer numbers; the number varies with the address) / an unknown manufacturer code; the
discovery window -> a settable clock substituted for decoder.datetime.
"""
from __future__ import annotations

import datetime as _dt
import random

from . import corpus, fastpacket as fp

PGN = {"A": 127250, "B": 130306, "F": 128275, "CLAIM": 60928, "P": 61184, "P1": 61184, "P2": 61184, "Q": 65285, "Q1": 65285,
       "T1": 130312, "T2": 130316}        # T1 / T2: two PGNs of which one id is the beginning of the other
IDS = {"A": "vesselHeading", "B": "windData", "F": "distanceLog", "CLAIM": "isoAddressClaim",
       "P1": "victronBatteryRegister", "P2": "0xef00ManufacturerProprietarySingleFrameAddressed",
       "Q1": "airmarBootStateAcknowledgment", "T1": "temperature", "T2": "temperatureExtendedRange"}
MFR = {"m1": "Garmin", "m2": "BEP Marine"}     # names that several manufacturer numbers share (229 / 645, 116 / 295)
UNKNOWN_PGN = 129285 + 30000        # checked at run time not to be in the database
SRC = {1: 11, 2: 12, 3: 13}


def name_payload(name: int, src: int) -> bytes:
    mfr = {1: (229, 645, 229), 2: (116, 295, 116), 3: (2000, 2000, 2000)}[name][(src - 1) % 3]
    v = (1000 + name) | (mfr << 21) | (1 << 32) | (130 << 40) | (25 << 49) | (4 << 60) | (1 << 63)
    return v.to_bytes(8, "little")


def spell(s: str, rng: random.Random) -> str:
    return rng.choice([s, s.lower(), s.upper(), s[0].upper() + s[1:]])


class Clock(_dt.datetime):
    offset = _dt.timedelta(0)

    @classmethod
    def now(cls, tz=None):
        return _dt.datetime.now(tz) + cls.offset

    # everything else behaves - and returns objects of the type - as the real class does (a time stamp of this subclass
    # would not be JSON-serialisable: decoders that write a dump file would refuse every text line)
    @classmethod
    def strptime(cls, date_string, fmt):
        return _dt.datetime.strptime(date_string, fmt)

    @classmethod
    def fromisoformat(cls, s):
        return _dt.datetime.fromisoformat(s)

    @classmethod
    def fromtimestamp(cls, *a, **k):
        return _dt.datetime.fromtimestamp(*a, **k)

    @classmethod
    def combine(cls, *a, **k):
        return _dt.datetime.combine(*a, **k)


def make_decoders(cfg: dict, rng: random.Random):
    from nmea2000.decoder import NMEA2000Decoder
    entries = [PGN[k] for k in sorted(cfg["nums"])] + [spell(IDS[k], rng) if k not in ("P2",) else rng.choice([IDS[k], IDS[k].lower()])
                                                      for k in sorted(cfg["ids"])]
    if entries and rng.random() < 0.3:       # an entry given twice (by number twice, or an id in two spellings) is the same list
        e0 = rng.choice(entries)
        entries.append(e0 if isinstance(e0, int) else spell(e0, rng))
    rng.shuffle(entries)
    mfrs = [spell(MFR[m], rng) for m in sorted(cfg["mfrs"])]
    if mfrs and rng.random() < 0.3:
        mfrs.append(spell(mfrs[0], rng))
    common = {"build_network_map": bool(cfg["netmap"])}
    if cfg["mfrMode"] == "exclude":
        common["exclude_manufacturer_code"] = mfrs
    elif cfg["mfrMode"] == "include":
        common["include_manufacturer_code"] = mfrs
    elif cfg["mfrMode"] == "both":
        common["exclude_manufacturer_code"] = mfrs
        common["include_manufacturer_code"] = [spell(MFR[m], rng) for m in sorted(cfg["mfrsIn"])]
    kw = dict(common)
    if cfg["mode"] == "exclude":
        kw["exclude_pgns"] = entries
    elif cfg["mode"] == "include":
        kw["include_pgns"] = entries
    # the caller's argument objects are used for several instances (a configuration kept in one place): the filtered decoder of
    # the history is the SECOND instance built from them, and what the lists contain afterwards is what the caller wrote
    before = repr(sorted(kw.items(), key=lambda x: x[0]))
    first = NMEA2000Decoder(**kw)
    first.close()
    F = NMEA2000Decoder(**kw)
    if repr(sorted(kw.items(), key=lambda x: x[0])) != before:
        ARGUMENTS_CHANGED.append((before, repr(sorted(kw.items(), key=lambda x: x[0]))))
    return F, NMEA2000Decoder(**common), NMEA2000Decoder(**common), entries


ARGUMENTS_CHANGED: list = []      # (before, after) of constructor arguments a decoder's construction modified (a note, see C16)


class Frame(tuple):
    """(pgn, src, dst, prio, data): a CAN frame before it is given a wire format"""


FORMATS = ("tcp", "usb", "yd", "plain-old", "plain-future", "acti-late")


def deliver(dec, fr: Frame, fmt: str):
    """hand the frame to the decoder through one of its input formats; the time stamps the text formats carry are
    far from the wall clock on purpose (a log from 2011, one from 2031, a gateway that has been up for two hours):
    what a decoder returns does not depend on them"""
    from . import clientrun as cr
    pgn, src, dst, prio, data = fr
    pf = (pgn >> 8) & 0xFF
    ident = (prio << 26) | (((pgn & 0x3FF00) | dst if pf < 240 else pgn) << 8) | src
    if fmt == "usb":
        return dec.decode_usb(cr.usb_packet(ident, bytes(data)))
    if fmt == "yd":
        return dec.decode_yacht_devices_string("23:59:58.500 R %08X %s" % (ident, " ".join("%02X" % b for b in data)))
    if fmt in ("plain-old", "plain-future"):
        stamp = "2011-11-24-22:42:04.388" if fmt == "plain-old" else "2031-01-02-03:04:05.678"
        return dec.decode_basic_string("%s,%d,%d,%d,%d,%d,%s" % (stamp, prio, pgn, src, dst, len(data), ",".join("%02x" % b for b in data)))
    if fmt == "plain-combined":          # (whole messages only)
        return dec.decode_basic_string("2011-11-24-22:42:04.388,%d,%d,%d,%d,%d,%s" % (prio, pgn, src, dst, len(data), ",".join("%02x" % b for b in data)),
                                       already_combined=True)
    if fmt == "acti-late":               # (whole messages only: never used for fast-packet frames)
        return dec.decode_actisense_string("A007200.250 %05X %05X %s" % ((src << 12) | (dst << 4) | prio, pgn, bytes(data).hex().upper()))
    return dec.decode_tcp(fp.ebyte_packet(pgn, src, dst, prio, bytes(data)))


def packet_for(ev: dict, counter: list) -> tuple[Frame, dict]:
    """concrete CAN frame + the model input with concrete content"""
    k = ev["k"]
    if k == "single":
        counter[0] += 1
        c = counter[0]
        if ev["pgn"] == "A":
            payload = bytes([c % 250, 0x10 + c % 100, 0x20, 0, 0, 0, 0, 0xFC])
        elif ev["pgn"] == "P1":            # Victron battery register: manufacturer 358, industry 4
            payload = bytes([0x66, 0x99, c % 250, 0x01, 0x10 + c % 100, 0x02, 0x03, 0x00])
        elif ev["pgn"] == "P2":            # no manufacturer definition matches: the PGN's fallback definition
            payload = bytes([0x05, 0x18, c % 250 + 1, 0x11, 0x22, 0x33, 0x44, 0x55])
        elif ev["pgn"] == "T1":            # temperature: sid, instance, source, actual (0.01 K), set (0.01 K), reserved
            payload = bytes([c % 250, 1, 2, 0x10 + c % 100, 0x70, 0x20, 0x71, 0xFF])
        elif ev["pgn"] == "T2":            # temperature, extended range: sid, instance, source, 24-bit 0.001 K, set (0.1 K)
            payload = bytes([c % 250, 1, 2, 0x10 + c % 100, 0x70, 0x04, 0x20, 0x0B])
        elif ev["pgn"] == "Q1":            # Airmar boot state (manufacturer 135, industry 4); PGN 65285 has no fallback
            payload = bytes([0x87, 0x98, 0xF8 | (c % 3), 0xFF, 0xFF, 0xFF, 0xFF, 0xFF])
        else:
            payload = bytes([c % 250, 0x10 + c % 100, 0x01, 0x20, 0x03, 0xFA, 0xFF, 0xFF])
        src = SRC[ev["src"]]
        return Frame((PGN[ev["pgn"]], src, 255, 2, payload)), \
            {"k": "single", "pgn": ev["pgn"], "src": ev["src"], "tok": list(payload)}
    if k == "frame":
        src = SRC[ev["src"]]
        n, i = ev["len"], ev["fc"]
        start = 0 if i == 0 else 6 + 7 * (i - 1)
        ln = max(0, min(6 if i == 0 else 7, n - start))
        # distance log: date (2 bytes), time (4), log (4), trip log (4): keep every field in range
        full = bytes([0x10 + ev["seq"], 0x20, 0x00, 0x10, 0x20, 0x01, ev["src"], 0x02, 0x03, 0x00, 0x05, 0x06, 0x07, 0x00])
        chunk = list(full[start:start + ln]) if len(ev["chunk"]) > 0 else []      # () = a truncated frame
        data = fp.can_data(ev["seq"], i, n, chunk)
        return Frame((PGN["F"], src, 255, 6, data)), \
            {"k": "frame", "src": ev["src"], "seq": ev["seq"], "fc": i, "len": n, "chunk": chunk}
    if k == "whole":                       # a distance log message delivered pre-assembled
        counter[0] += 1
        full = bytes([0x10 + counter[0] % 7, 0x20, 0x00, 0x10, 0x20, 0x01, ev["src"], 0x02, 0x03, 0x00, counter[0] % 200, 0x06, 0x07, 0x00])
        return Frame((PGN["F"], SRC[ev["src"]], 255, 6, full)), {"k": "whole", "src": ev["src"], "tok": list(full)}
    if k == "claim":
        return Frame((PGN["CLAIM"], SRC[ev["src"]], 255, 6, name_payload(ev["name"], ev["src"]))), \
            {"k": "claim", "src": ev["src"], "name": ev["name"]}
    if k == "nomatch":                     # PGN 65285 from a manufacturer none of its definitions is for
        counter[0] += 1
        return Frame((PGN["Q"], SRC[ev["src"]], 255, 2, bytes([0x66, 0x99, counter[0] % 250, 2, 3, 4, 5, 6]))), \
            {"k": "nomatch", "src": ev["src"]}
    if k == "unknown":
        return Frame((UNKNOWN_PGN, SRC[ev["src"]], 255, 6, b"\x01\x02\x03\x04\x05\x06\x07\x08")), \
            {"k": "unknown", "src": ev["src"]}
    raise ValueError(k)


BAD_INPUTS = [("tcp", bytes([0x80, 0x09, 0xF5, 0x13, 0x0B])),                    # fast PGN with no data byte
              ("tcp", b"\x81"),                                                   # truncated header
              ("yd", "garbage"), ("yd", "00:00:00.000 X 09F80101 00"), ("acti", "A1 2"), ("basic", "1,2,3"),
              ("usb", bytes(20)),                                                  # no marker
              ("tcp", fp.ebyte_packet(127250, 11, 255, 2, b"\x01\xff\xfe\x00\x00\x00\x00\xfc")[:13])]   # heading out of range
# a first frame of the fast-packet PGN cut after its counter byte (no length byte): refused with an error, for every
# source and sequence counter the histories use - it must leave the reassembly buffer of that stream alone
BAD_INPUTS += [("tcp", fp.ebyte_packet(128275, s, 255, 6, bytes([q << 5]))) for s in (11, 12, 13) for q in (0, 1, 2, 3)]


def _refused_claim(src_idx: int) -> bytes:
    """an address claim the decoder refuses with an error (unique number 0x1FFFFD is outside its range) from a source
    of the histories, with another NAME than any the source may have claimed: what the source claimed before stays"""
    v = int.from_bytes(name_payload(3, src_idx), "little")
    v = (v & ~0x1FFFFF) | 0x1FFFFD
    return v.to_bytes(8, "little")


BAD_INPUTS += [("tcp", fp.ebyte_packet(60928, SRC[i], 255, 6, _refused_claim(i))) for i in (1, 2, 3)]
# a pre-assembled message of the fast-packet PGN that is refused with an error (its date field is out of range) from each
# source, through the two routes that take whole messages
BAD_INPUTS += [("basic-combined", "2011-11-24-22:42:04.388,6,128275,%d,255,14,fe,ff,00,10,20,01,%02x,02,03,00,05,06,07,00" % (SRC[i], i)) for i in (1, 2, 3)]
BAD_INPUTS += [("acti", "A007200.250 %05X %05X %s" % ((SRC[i] << 12) | (255 << 4) | 6, 128275, "FEFF001020010%d0203000506070" % i + "0")) for i in (1, 2, 3)]


def feed_bad(dec, i: int):
    kind, data = BAD_INPUTS[i % len(BAD_INPUTS)]
    if kind == "tcp":
        return dec.decode_tcp(data)
    if kind == "usb":
        return dec.decode_usb(data)
    if kind == "yd":
        return dec.decode_yacht_devices_string(data)
    if kind == "acti":
        return dec.decode_actisense_string(data)
    if kind == "basic-combined":
        return dec.decode_basic_string(data, already_combined=True)
    return dec.decode_basic_string(data)


NAMES = {}


def observe(dec, fn) -> dict:
    from nmea2000.encoder import NMEA2000Encoder
    o = {"ret": "none", "pgn": "", "src": 0, "tok": [], "ident": 0}
    try:
        m = fn(dec)
    except Exception as e:                 # noqa: BLE001
        o["ret"], o["err"] = "err", f"{type(e).__name__}: {e}"[:80]
        return o
    if m is None:
        return o
    o["ret"] = "msg"
    o["pgn"] = {v: k for k, v in IDS.items()}.get(m.id, str(m.id))
    o["src"] = {v: k for k, v in SRC.items()}.get(m.source, m.source)
    iso = m.source_iso_name
    if iso is not None:
        o["ident"] = NAMES.get(iso.name, 99)
    if m.PGN == PGN["CLAIM"]:
        o["tok"] = [o["ident"]]           # a claim's content is the NAME it carries
    else:
        h = _payload_hex(m)
        o["tok"] = list(bytes.fromhex(h)) if h else (fp.observed_payload(m) or [])
    return o


def _payload_hex(m) -> str:
    from nmea2000.encoder import NMEA2000Encoder
    try:
        return NMEA2000Encoder().encode_actisense(m).split()[2]
    except Exception:                      # noqa: BLE001
        return ""


def replay(behaviours, rng: random.Random):
    import nmea2000.decoder as D
    from .gen_db import build
    assert str(UNKNOWN_PGN) not in build()["byPgn"]
    for nm in (1, 2, 3):
        for s in SRC:
            NAMES[int.from_bytes(name_payload(nm, s), "little")] = nm
    traces = []
    orig_dt = D.datetime
    D.datetime = Clock
    try:
        for beh in behaviours:
            cfgm = beh[1][1]["cfg"] if len(beh) > 1 else beh[0][1]["cfg"]
            cfg = {"mode": cfgm["mode"], "nums": sorted(cfgm["nums"]), "ids": sorted(cfgm["ids"]), "mfrMode": cfgm["mfrMode"],
                   "mfrs": sorted(cfgm["mfrs"]), "mfrsIn": sorted(cfgm.get("mfrsIn", [])), "netmap": cfgm["netmap"]}
            Clock.offset = _dt.timedelta(0)
            F, U, G, entries = make_decoders(cfg, rng)
            window = True
            counter = [0]
            evs = []
            nbad = rng.randrange(len(BAD_INPUTS))      # which kinds of bad input this history meets
            for action, st in beh[1:]:
                ev = st["ev"]
                k = ev["k"]
                if k == "window":
                    Clock.offset = _dt.timedelta(minutes=11)
                    window = False
                    continue
                if k == "other":
                    # an unrelated instance gets traffic of its own (claims with another NAME, frames, garbage)
                    for fn in (lambda d: d.decode_tcp(fp.ebyte_packet(60928, SRC[1], 255, 6, name_payload(2, 1))),
                               lambda d: d.decode_tcp(fp.ebyte_packet(PGN["F"], SRC[2], 255, 6, fp.can_data(5, 0, 14, [9, 9, 9, 9, 9, 9]))),
                               lambda d: feed_bad(d, nbad)):
                        observe(G, fn)
                    evs.append({"in": uniform({"k": "unknown", "src": 1}), "window": window, "who": "G",
                                "obsF": observe(F, lambda d: None), "obsU": observe(U, lambda d: None)})
                    continue
                if k == "bad":
                    nbad += 1
                    b = nbad
                    evs.append({"in": uniform({"k": "bad"}), "window": window, "who": "FU",
                                "obsF": observe(F, lambda d: feed_bad(d, b)), "obsU": observe(U, lambda d: feed_bad(d, b))})
                    continue
                pkt, min_ = packet_for(ev, counter)
                # every step arrives through another input format (the same one for the decoder and its twin)
                fmt = ev.get("fmt") or rng.choice(FORMATS[:5] if k == "frame" else ("acti-late", "plain-combined") if k == "whole" else FORMATS)
                if k == "whole" and fmt not in ("acti-late", "plain-combined"):
                    fmt = "plain-combined"
                evs.append({"in": uniform(min_), "window": window, "who": "FU", "fmt": fmt,
                            "obsF": observe(F, lambda d: deliver(d, pkt, fmt)), "obsU": observe(U, lambda d: deliver(d, pkt, fmt))})
            traces.append({"cfg": cfg, "evs": evs, "entries": [str(e) for e in entries]})
            for d in (F, U, G):
                d.close()
    finally:
        D.datetime = orig_dt
    return traces


def decoder_kwargs(cfg: dict, rng: random.Random):
    """constructor arguments of the filtered decoder (or client) and of its unfiltered twin"""
    entries = [PGN[k] for k in sorted(cfg["nums"])] + [spell(IDS[k], rng) for k in sorted(cfg["ids"])]
    mfrs = [spell(MFR[m], rng) for m in sorted(cfg["mfrs"])]
    common = {"build_network_map": bool(cfg["netmap"])}
    if cfg["mfrMode"] in ("exclude", "both"):
        common["exclude_manufacturer_code"] = mfrs
    if cfg["mfrMode"] == "include":
        common["include_manufacturer_code"] = mfrs
    if cfg["mfrMode"] == "both":
        common["include_manufacturer_code"] = [spell(MFR[m], rng) for m in sorted(cfg.get("mfrsIn", []))]
    kw = dict(common)
    if cfg["mode"] == "exclude":
        kw["exclude_pgns"] = entries
    elif cfg["mode"] == "include":
        kw["include_pgns"] = entries
    return kw, common, entries


def replay_through_client(kind: str, cfg: dict, hist: list, rng: random.Random, relink_before=()):
    """One history through a real gateway client on the virtual-time loop: the client, built with the configuration's
    options, takes the place of the filtered decoder (what it hands to the receive callback after each packet is the
    observation), an unfiltered stand-alone decoder gets the same frames directly.  Before the steps listed in relink_before
    the gateway ends the link and the client's next link carries the rest: a lost link is not an input of the decoder model -
    whatever the decoder learnt stays.  Returns a trace in the format of replay()."""
    import nmea2000.decoder as D
    from nmea2000.decoder import NMEA2000Decoder
    from . import clientrun as cr
    from . import vloop
    for nm in (1, 2, 3):
        for s_ in SRC:
            NAMES[int.from_bytes(name_payload(nm, s_), "little")] = nm
    kw, common, entries = decoder_kwargs(cfg, rng)
    fmt = {"ebyte": "tcp", "waveshare": "usb", "yd": "yd", "actisense": "acti-late"}[kind]
    orig_dt, D.datetime = D.datetime, Clock
    Clock.offset = _dt.timedelta(0)
    try:
        sess = vloop.Session()
        counter = [0]
        steps, marks = [], []          # (time, model input, frame) ; deliveries seen right after each step

        def packet(fr: Frame) -> bytes:
            pgn, src, dst, prio, data = fr
            pf = (pgn >> 8) & 0xFF
            ident = (prio << 26) | (((pgn & 0x3FF00) | dst if pf < 240 else pgn) << 8) | src
            if kind == "ebyte":
                return fp.ebyte_packet(pgn, src, dst, prio, bytes(data))
            if kind == "waveshare":
                return cr.usb_packet(ident, bytes(data))
            if kind == "yd":
                return b"23:59:58.500 R %08X %s\r\n" % (ident, " ".join("%02X" % b for b in data).encode())
            return b"A007200.250 %05X %05X %s\r\n" % ((src << 12) | (dst << 4) | prio, pgn, bytes(data).hex().upper().encode())

        def scenario(s):
            s.user("connect", s.client.connect)
            t = 9.0                      # (after the clients' own seeding requests)
            for i, ev in enumerate(hist):
                if i in relink_before:
                    s.at_time(t, lambda: s.eof(max(s.readers)))
                    t += 3.0
                if ev["k"] == "window":
                    s.at_time(t, lambda: setattr(Clock, "offset", _dt.timedelta(minutes=11)))
                    steps.append((t, None, None))
                    t += 0.5
                    continue
                fr, min_ = packet_for(ev, counter)
                steps.append((t, min_, fr))
                s.at_time(t, lambda fr=fr: s.feed(max(s.readers), packet(fr)))
                s.at_time(t + 0.5, lambda: marks.append(len(s.delivered)))
                t += 1.0
        sess.run(vloop.make_client_factory(kind, **kw), scenario, until=9.0 + 4.0 * len(hist) + 5.0)
        evs, window, seen = [], True, 0
        it = iter(marks)
        for t, min_, fr in steps:
            if min_ is None:
                Clock.offset = _dt.timedelta(minutes=11)
                window = False
                continue
            upto = next(it, seen)
            got = sess.delivered[seen:upto]
            seen = upto
            obsF = observe(None, lambda d: got[-1] if got else None)
            if len(got) > 1:
                obsF["ret"], obsF["err"] = "err", f"{len(got)} messages delivered for one packet"
            # (the unfiltered twin sees the frames in the same order, at its own clock: the window is the model's)
            evs.append({"in": uniform(min_), "window": window, "who": "FU", "fmt": f"client-{kind}",
                        "obsF": obsF, "obsU": None, "_fr": fr})
        # the twin is fed afterwards with the clock replayed
        Clock.offset = _dt.timedelta(0)
        U = NMEA2000Decoder(**common)
        k = 0
        for t, min_, fr in steps:
            if min_ is None:
                Clock.offset = _dt.timedelta(minutes=11)
                continue
            evs[k]["obsU"] = observe(U, lambda d, fr=fr: deliver(d, fr, fmt))
            del evs[k]["_fr"]
            k += 1
        U.close()
    finally:
        D.datetime = orig_dt
        Clock.offset = _dt.timedelta(0)
    return {"cfg": cfg, "evs": evs, "entries": [str(e) for e in entries]}


def uniform(i: dict) -> dict:
    """TLC compares records field by field: give every input the same shape"""
    base = {"k": "", "pgn": "", "src": 0, "tok": [], "seq": 0, "fc": 0, "len": 0, "chunk": [], "name": 0}
    base.update(i)
    return base
