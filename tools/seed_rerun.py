#!/venv/bin/python
"""Re-run the corpus of seeded changes against the current checks (regression of detection).

usage: seed_rerun.py [-j N] [seed names ...]            (default: every directory under /verif/seeded)
For every seed: a scratch worktree of /repo under /tmp/wt (never /repo itself) gets the patch, the quick check of
the seed's property runs against it (VERIF_REPO) with its own scratch directory (VERIF_SCRATCH), the worktree is
removed.  Prints one line per seed; exit 1 if a seed that was detected before is no longer detected.
"""
import json
import os
import shutil
import subprocess
import sys
from concurrent.futures import ThreadPoolExecutor

args = sys.argv[1:]
jobs = 3
if args[:1] == ["-j"]:
    jobs = int(args[1])
    args = args[2:]
names = args or sorted(os.listdir("/verif/seeded"))


def one(name: str):
    meta = json.load(open(f"/verif/seeded/{name}/meta.json"))
    prop = meta["property"]
    wt, scratch = f"/tmp/wt/_rerun_{name}", f"/tmp/wt/_scratch_{name}"
    for d in (wt, scratch):
        shutil.rmtree(d, ignore_errors=True)
    subprocess.run(["git", "-C", "/repo", "worktree", "prune"], capture_output=True)
    r = subprocess.run(["git", "-C", "/repo", "worktree", "add", "-q", "--detach", wt, "HEAD"], capture_output=True, text=True)
    if r.returncode:
        return name, prop, "worktree-failed", r.stderr.strip()
    try:
        a = subprocess.run(["git", "-C", wt, "apply", f"/verif/seeded/{name}/patch.diff"], capture_output=True, text=True)
        if a.returncode:
            return name, prop, "patch-does-not-apply", a.stderr.strip()[:200]
        p = subprocess.run(["./check", prop, "--tier", "quick"], cwd="/verif", capture_output=True, text=True,
                           env=dict(os.environ, VERIF_REPO=wt, VERIF_SCRATCH=scratch))
        first = next((ln for ln in p.stdout.splitlines() if ln.startswith("  ")), "").strip()[:160]
        return name, prop, {0: "MISSED", 1: "detected", 2: "machinery-failure"}.get(p.returncode, str(p.returncode)), first
    finally:
        subprocess.run(["git", "-C", "/repo", "worktree", "remove", "--force", wt], capture_output=True)
        shutil.rmtree(scratch, ignore_errors=True)


bad = 0
with ThreadPoolExecutor(jobs) as ex:
    for name, prop, verdict, note in ex.map(one, names):
        print(f"{name:45s} {prop} {verdict:18s} {note}", flush=True)
        if verdict != "detected":
            bad += 1
sys.exit(1 if bad else 0)
