#!/venv/bin/python
"""Mutation campaign: apply each micro-mutant of tools/mutants.py to a scratch worktree of /repo (never /repo itself),
run the repository's tests and the quick checks of the properties named for it, report survivors.

usage: mutate.py [-j N] [mutant ids ...]
A mutant the repository's own tests reject is of no interest (reported as 'tests'); one that is 'harmless' must leave
every named check quiet.  Exit 1 if a harmful mutant survives all its checks or a harmless one raises an alarm.
"""
import os
import shutil
import subprocess
import sys
import threading
from concurrent.futures import ThreadPoolExecutor

sys.path.insert(0, os.path.dirname(os.path.abspath(__file__)))
from mutants import HARMLESS, MUTANTS  # noqa: E402

args = sys.argv[1:]
jobs = 3
if args[:1] == ["-j"]:
    jobs = int(args[1])
    args = args[2:]
todo = [m for m in MUTANTS if not args or m[0] in args]
TESTS = threading.Lock()      # the repository's tests open fixed TCP ports: one run at a time


def one(m):
    mid, path, old, new, props = m
    wt, scratch = f"/tmp/wt/_mut_{mid}", f"/tmp/wt/_mutscratch_{mid}"
    for d in (wt, scratch):
        shutil.rmtree(d, ignore_errors=True)
    subprocess.run(["git", "-C", "/repo", "worktree", "prune"], capture_output=True)
    r = subprocess.run(["git", "-C", "/repo", "worktree", "add", "-q", "--detach", wt, "HEAD"], capture_output=True, text=True)
    if r.returncode:
        return mid, "worktree-failed", r.stderr.strip()
    try:
        src = open(f"{wt}/{path}").read()
        if src.count(old) < 1 or (src.count(old) != 1 and not path.endswith("pgns.py")):
            return mid, "no-unique-match", f"{src.count(old)} occurrences"
        open(f"{wt}/{path}", "w").write(src.replace(old, new, 1))
        env = dict(os.environ, PYTHONPATH=wt, PYTHONHASHSEED="0")
        with TESTS:
            t = subprocess.run("/venv/bin/python -m pytest -q -x -p no:cacheprovider 2>&1 | tail -1", shell=True, cwd=wt,
                               capture_output=True, text=True, env=env)
        if "71 passed" not in t.stdout:
            return mid, "tests", t.stdout.strip()[:80]
        res = {}
        for p in props:
            c = subprocess.run(["./check", p, "--tier", "quick"], cwd="/verif", capture_output=True, text=True,
                               env=dict(os.environ, VERIF_REPO=wt, VERIF_SCRATCH=scratch))
            res[p] = c.returncode
            if c.returncode == 1 and mid not in HARMLESS:
                break
        if mid in HARMLESS:
            verdict = "quiet" if all(v == 0 for v in res.values()) else "FALSE-ALARM"
        else:
            verdict = "detected" if 1 in res.values() else ("machinery" if 2 in res.values() else "SURVIVED")
        return mid, verdict, " ".join(f"{k}:{v}" for k, v in res.items())
    finally:
        subprocess.run(["git", "-C", "/repo", "worktree", "remove", "--force", wt], capture_output=True)
        shutil.rmtree(scratch, ignore_errors=True)


bad = 0
with ThreadPoolExecutor(jobs) as ex:
    for mid, verdict, note in ex.map(one, todo):
        print(f"{mid:28s} {verdict:16s} {note}", flush=True)
        if verdict in ("SURVIVED", "FALSE-ALARM", "machinery", "no-unique-match", "worktree-failed"):
            bad += 1
sys.exit(1 if bad else 0)
