#!/venv/bin/python
"""Confirm a seeded change produced by a sub-agent and run checks against it.

usage: seed_eval.py <worktree> <seed-name> <property> [check ids to run ...]
  1. in the worktree: existing tests pass with the change; demo exits 1 with / 0 without the change
  2. copy patch.diff, demo.py, meta.json to /verif/seeded/<seed-name>/
  3. run the named checks (quick tier) against the worktree (VERIF_REPO=<worktree>); /repo is not touched
"""
import json
import os
import shutil
import subprocess
import sys
import time

wt, name, prop, *checks = sys.argv[1:]
checks = checks or [prop]
env = dict(os.environ, PYTHONPATH=wt, PYTHONHASHSEED="0")


def sh(cmd, cwd, **kw):
    return subprocess.run(cmd, shell=True, cwd=cwd, capture_output=True, text=True, env=env, **kw)


res = {}
r = sh("/venv/bin/python -m pytest -q -p no:cacheprovider -x 2>&1 | tail -1", wt)
res["tests_with_change"] = r.stdout.strip()
r1 = sh("/venv/bin/python _seed/demo.py", wt)
res["demo_with_change_rc"] = r1.returncode
# (no git stash: the stash is shared by all worktrees of a repository, and concurrent agents use it)
same = sh("git diff", wt).stdout.strip() == open(f"{wt}/_seed/patch.diff").read().strip()
res["worktree_matches_patch"] = same
assert sh("git apply -R _seed/patch.diff", wt).returncode == 0, "cannot revert the patch in the worktree"
r0 = sh("/venv/bin/python _seed/demo.py", wt)
res["demo_without_change_rc"] = r0.returncode
assert sh("git apply _seed/patch.diff", wt).returncode == 0
print(json.dumps(res, indent=1))
ok = "71 passed" in res["tests_with_change"] and r1.returncode != 0 and r0.returncode == 0 and same
dst = f"/verif/seeded/{name}"
os.makedirs(dst, exist_ok=True)
for f in ("patch.diff", "demo.py", "meta.json"):
    shutil.copy(f"{wt}/_seed/{f}", dst)
meta = json.load(open(f"{dst}/meta.json"))
meta.update(property=prop, confirmed=ok, confirmation=res, checks={})
# the checks run against the scratch worktree (VERIF_REPO), which carries the change; /repo is not touched,
# the patch is only required to apply to it
a = sh(f"git apply --check {dst}/patch.diff", "/repo")
if a.returncode:
    print("patch does not apply to /repo:", a.stderr)
    sys.exit(2)
assert sh("git diff --quiet", wt).returncode == 1, "worktree carries no change"
try:
    for c in checks:
        t0 = time.time()
        p = subprocess.run(["./check", c, "--tier", "quick"], cwd="/verif", capture_output=True, text=True,
                           env=dict(os.environ, VERIF_REPO=wt))
        lines = [l for l in p.stdout.splitlines() if l.startswith(("VIOLATION", "  ", "KNOWN", "C"))][:8]
        meta["checks"][c] = {"rc": p.returncode, "wall_s": round(time.time() - t0, 1), "output": lines}
        print(c, "rc", p.returncode, f"{time.time()-t0:.0f}s")
        print("\n".join(lines[:6]))
        if p.returncode == 2:
            print(p.stderr[-1500:])
finally:
    subprocess.run("git -C /verif checkout -- evidence 2>/dev/null", shell=True)
meta["detected_by"] = [c for c, v in meta["checks"].items() if v["rc"] == 1]
meta["ran"] = "tools/seed_eval.py " + " ".join(sys.argv[1:])
json.dump(meta, open(f"{dst}/meta.json", "w"), indent=1)
print("confirmed" if ok else "NOT CONFIRMED", "| detected by:", meta["detected_by"])
