"""Hand-written micro-mutants of tomer-w/nmea2000 (one textual replacement each) and the properties whose checks
are expected to reject them.  Used by tools/mutate.py; nothing here is ever written to /repo.

(id, file, old text (must occur exactly once), new text, [properties])"""

U = "nmea2000/utils.py"
M = "nmea2000/message.py"
D = "nmea2000/decoder.py"
E = "nmea2000/encoder.py"
I = "nmea2000/ioclient.py"

MUTANTS = [
    # ---- utils: codec helpers -------------------------------------------------------------------------------
    ("u-date-epoch-dec", U, "    start_date = date(1970, 1, 1)\n    \n    # Calculate the decoded date", "    start_date = date(1970, 1, 2)\n    \n    # Calculate the decoded date", ["C01"]),
    ("u-date-epoch-enc", U, "    start_date = date(1970, 1, 1)\n    \n    # Calculate the number of days", "    start_date = date(1970, 1, 2)\n    \n    # Calculate the number of days", ["C02", "C09"]),
    ("u-time-seconds", U, "    seconds = seconds_since_midnight % 60\n", "    seconds = seconds_since_midnight % 59\n", ["C01"]),
    ("u-time-minutes", U, "    minutes = (seconds_since_midnight % 3600) // 60\n", "    minutes = (seconds_since_midnight % 3600) // 61\n", ["C01"]),
    ("u-float-min-strict", U, "    if decoded_float < min_value:\n", "    if decoded_float <= min_value:\n", ["C01"]),
    ("u-float-max-dropped", U, "    if decoded_float > max_value:\n        raise ValueError(\"Value above maximum allowed\")\n\n    return decoded_float", "    return decoded_float", ["C01"]),
    ("u-float-endian", U, "    decoded_float, = struct.unpack('<f', bytes_data)", "    decoded_float, = struct.unpack('>f', bytes_data)", ["C01"]),
    ("u-encfloat-endian", U, "    bytes_data = struct.pack('<f', float_number)", "    bytes_data = struct.pack('>f', float_number)", ["C02", "C09"]),
    ("u-num-3bit-sentinel", U, "    if bit_length <= 3:\n        if number_int == (1 << bit_length) - 1:\n            return None", "    if bit_length < 3:\n        if number_int == (1 << bit_length) - 1:\n            return None", ["C01"]),
    ("u-num-signed-sentinel", U, "        max_positive_value = (1 << bit_length) - 1 if not signed else (1 << (bit_length - 1)) - 1", "        max_positive_value = (1 << bit_length) - 1 if not signed else (1 << (bit_length - 1)) - 2", ["C01"]),
    ("u-num-tolerance", U, "    tolerance = abs(resolution) / 2\n", "    tolerance = abs(resolution) * 2\n", ["C01"]),
    ("u-num-min-unchecked", U, "    if number_int < min_value - tolerance:\n        raise ValueError(\"Value below minimum allowed\")\n", "", ["C01"]),
    ("u-num-sign-ext", U, "            number_int -= (1 << bit_length)\n", "            number_int -= (1 << bit_length) - 1\n", ["C01"]),
    ("u-enc-signed-max", U, "        max_val = (1 << (bit_length - 1)) - 2  # reserve max for \"not available\"", "        max_val = (1 << (bit_length - 1)) - 1  # reserve max for \"not available\"", ["C09"]),
    ("u-enc-unsigned-max", U, "        max_val = (1 << bit_length) - 2  # reserve max for \"not available\"", "        max_val = (1 << bit_length) - 1  # reserve max for \"not available\"", ["C09"]),
    ("u-enc-min-signed", U, "        min_val = -(1 << (bit_length - 1))\n", "        min_val = -(1 << (bit_length - 1)) + 1\n", ["C02", "C09"]),
    ("u-enc-na-small", U, "        if bit_length <= 3:\n            return (1 << bit_length) - 1\n        elif signed:", "        if bit_length <= 3:\n            return (1 << bit_length) - 2\n        elif signed:", ["C02", "C09"]),
    ("u-enc-round-floor", U, "    number_int = int(round((value - offset) / resolution))", "    number_int = int((value - offset) / resolution + 0.5)", ["C02", "C09"]),
    ("u-enc-neg-wrap", U, "        number_int = (1 << bit_length) + number_int\n", "        number_int = (1 << bit_length) - 1 + number_int\n", ["C02", "C09"]),
    ("u-bitlookup-sep", U, "    return ', '.join(flags)", "    return ','.join(flags)", ["C01"]),
    ("u-bitlookup-from1", U, "def decode_bit_lookup(data_raw: int, bit_lookup_dict) -> str:\n    bit = 0\n", "def decode_bit_lookup(data_raw: int, bit_lookup_dict) -> str:\n    bit = 1\n", ["C01"]),
    ("u-strfix-at", U, "    decoded_str = decoded_str.split('@', 1)[0]\n", "", ["C01"]),
    ("u-strfix-strip", U, "    decoded_str = decoded_str.strip()\n    return decoded_str\n    \ndef decode_string_lz", "    decoded_str = decoded_str.rstrip()\n    return decoded_str\n    \ndef decode_string_lz", ["C01"]),
    ("u-strlz-len", U, "    byte_arr_str = byte_arr[1 : 1 + str_len]", "    byte_arr_str = byte_arr[1 : str_len]", ["C01"]),
    ("u-strlau-len", U, "    byte_arr_str = byte_arr[2 : str_len]", "    byte_arr_str = byte_arr[2 : str_len + 1]", ["C01"]),
    ("u-strlau-ascii-flag", U, "    if is_asci:\n", "    if is_asci == 1:\n", ["C01"]),
    ("u-strlau-advance", U, "    return decoded_str, str_len*8", "    return decoded_str, (str_len + 1)*8", ["C01"]),
    ("u-checksum-range", U, "    checksum = sum(data[2:19])", "    checksum = sum(data[3:19])", ["C06", "C20"]),
    ("u-knots-factor", U, "    conversion_factor = 3600 / 1852\n", "    conversion_factor = 1.9438\n", ["C18"]),
    ("u-celsius-round", U, "    celsius = round(kelvin - 273.15,2)", "    celsius = round(kelvin - 273.15,1)", ["C18"]),
    ("u-fahrenheit-offset", U, "    fahrenheit = round((kelvin - 273.15) * (9/5) + 32,0)", "    fahrenheit = round((kelvin - 273) * (9/5) + 32,0)", ["C18"]),
    ("u-degrees-round", U, "    degrees = round(math.degrees(radians), 0)", "    degrees = float(int(math.degrees(radians)))", ["C18"]),
    ("m-units-label-only", M, "                    f.unit_of_measurement = \"PSI\"\n                    f.value = pascal_to_PSI(f.value)", "                    f.unit_of_measurement = \"PSI\"", ["C18"]),
    ("m-units-angle-speed", M, "            if f.physical_quantities == PhysicalQuantities.SPEED:", "            if f.physical_quantities in (PhysicalQuantities.SPEED, PhysicalQuantities.ANGULAR_VELOCITY):", ["C18"]),
    # ---- message ---------------------------------------------------------------------------------------------
    ("m-hash-uses-value", M, "                    primary_key += \"_\" + str(nmea_field.raw_value)", "                    primary_key += \"_\" + str(nmea_field.value)", ["C17"]),
    ("m-hash-no-sep", M, "                    primary_key += \"_\" + str(nmea_field.raw_value)", "                    primary_key += str(nmea_field.raw_value)", ["C17"]),
    ("m-getint-default", M, "            if default_value is not None:\n                return default_value", "            if default_value:\n                return default_value", ["C11"]),
    # ---- decoder ---------------------------------------------------------------------------------------------
    ("d-fast-seq-mask", D, "        sequence_counter = (last_byte >> 5) & 0b111  # Extract high 3 bits", "        sequence_counter = (last_byte >> 5) & 0b11  # Extract high 3 bits", ["C03", "C04"]),
    ("d-fast-fc-mask", D, "        frame_counter = last_byte & 0b11111  # Extract low 5 bits", "        frame_counter = last_byte & 0b1111  # Extract low 5 bits", ["C03", "C04"]),
    ("d-fast-complete-gt", D, "        if fast_pgn.bytes_stored >= fast_pgn.payload_length:", "        if fast_pgn.bytes_stored > fast_pgn.payload_length:", ["C03", "C04"]),
    ("d-fast-dup-check", D, "            elif frame_counter in fast_pgn.frames:\n                logger.debug(f\"Frame {frame_counter} for PGN {pgn} is already stored.\")\n                return None\n", "", ["C04"]),
    ("d-fast-key-nodest", D, "        fast_packet_key = f\"{pgn}_{src}_{dest}\"", "        fast_packet_key = f\"{pgn}_{src}\"", ["C04"]),
    ("d-fast-key-nosrc", D, "        fast_packet_key = f\"{pgn}_{src}_{dest}\"", "        fast_packet_key = f\"{pgn}_{dest}\"", ["C04", "C16"]),
    ("d-acti-prio-mask", D, "        priority = n & 0xF\n", "        priority = n & 0x7\n", ["C07"]),
    ("d-acti-src-shift", D, "        src = (n >> 12) & 0xFF\n", "        src = (n >> 12) & 0x7F\n", ["C07", "C06"]),
    ("d-yd-direction", D, "        if parts[1] not in [\"R\", \"T\"]:", "        if parts[1] not in [\"R\"]:", ["C07"]),
    ("d-basic-length", D, "        can_data = parts[6:6 + length][::-1]", "        can_data = parts[6:][::-1]", ["C07"]),
    ("d-hdr-prio", D, "        priority = (frame_id_int >> 26) & 0x07      # bits 26-28 = 3 bits", "        priority = (frame_id_int >> 26) & 0x03      # bits 26-28 = 3 bits", ["C05"]),
    ("d-hdr-pf-boundary", D, "        if pf < 0xF0:\n            # PDU1 format: PS is destination address", "        if pf <= 0xF0:\n            # PDU1 format: PS is destination address", ["C05"]),
    ("d-tcp-len-mask", D, "        data_length = type_byte & 0x0F  # last 4 bits represent the data length", "        data_length = type_byte & 0x07  # last 4 bits represent the data length", ["C06", "C07"]),
    ("d-usb-len20", D, "        if len(packet) != 20:\n", "        if len(packet) < 20:\n", ["C06"]),
    ("d-usb-checksum-skip", D, "        if checksum != packet[19]:\n", "        if checksum != packet[19] and packet[19] != 0:\n", ["C06", "C20"]),
    ("d-excl-claim", D, "        if pgn != ISO_CLAIM_PGN: # The ISO_CLAIM_PGN should bypass this check so we can build the map later", "        if True: # The ISO_CLAIM_PGN should bypass this check so we can build the map later", ["C10", "C11"]),
    ("d-window-9min", D, "timedelta(minutes=10)", "timedelta(minutes=12)", ["C11"]),
    ("d-mfr-case", D, "                manufacturer_code = source_iso_name.manufacturer_code.lower()", "                manufacturer_code = source_iso_name.manufacturer_code", ["C11"]),
    ("d-mfr-include-empty", D, "                if len(self.include_manufacturer_code) > 0 and manufacturer_code not in self.include_manufacturer_code:", "                if manufacturer_code not in self.include_manufacturer_code:", ["C11"]),
    ("d-claim-same-name", D, "            if old_source is not None and old_source.name == data_int:", "            if old_source is not None:", ["C11"]),
    ("d-id-exclude-case", D, "        id = nmea2000Message.id.lower()\n", "        id = nmea2000Message.id\n", ["C10", "C15"]),
    ("d-dump-before-units", D, "        nmea2000Message.apply_preferred_units(self.preferred_units)\n\n        # Handle dump to file", "        # Handle dump to file", ["C18"]),
    ("d-bigendian", D, "        data_int = int.from_bytes(data, \"big\")", "        data_int = int.from_bytes(data, \"little\")", ["C01"]),
    # ---- encoder ---------------------------------------------------------------------------------------------
    ("e-fast-first-cap", E, "        first_frame_capacity = 6\n", "        first_frame_capacity = 5\n", ["C03"]),
    ("e-fast-frames-ceil", E, "            total_frames = 1 + (leftover + 7 - 1) // 7", "            total_frames = 1 + (leftover + 7) // 7", ["C03"]),
    ("e-fast-seq-wrap", E, "        self.sequence_counter = (self.sequence_counter + 1) % 8", "        self.sequence_counter = (self.sequence_counter + 1) % 7", ["C03"]),
    ("e-hdr-prio-mask", E, "        frame_id = (priority & 0x7) << 26        # 3 bits: Priority", "        frame_id = (priority & 0x3) << 26        # 3 bits: Priority", ["C05"]),
    ("e-hdr-dp", E, "        dp = (pgn_id >> 16) & 0x03      # Extract DP (and reserved)", "        dp = (pgn_id >> 16) & 0x01      # Extract DP (and reserved)", ["C05"]),
    ("e-ebyte-len", E, "            type_byte = (len(message) & 0x0F) | (1 << 7)  # Set the FF bit", "            type_byte = (len(message) & 0x07) | (1 << 7)  # Set the FF bit", ["C06"]),
    ("e-usb-reserved", E, "            msg_bytes += bytes([0x00]) # byte[18] reserved\n", "            msg_bytes += bytes([0x01]) # byte[18] reserved\n", ["C06"]),
    ("e-acti-prio", E, "        priority = nmea2000Message.priority & 0xF\n", "        priority = nmea2000Message.priority & 0x3\n", ["C06"]),
    ("e-acti-lower", E, "        can_data_part = can_data_bytes.hex().upper()", "        can_data_part = can_data_bytes.hex()", ["C06", "C07"]),
    ("e-yd-crlf", E, "+ self.bytes_to_hex_string(message) + \"\\r\\n\"", "+ self.bytes_to_hex_string(message) + \"\\n\"", ["C06"]),
    ("e-check-src-range", E, "        if not (0 <= nmea2000Message.source <= 255):", "        if not (0 <= nmea2000Message.source <= 256):", ["C19", "C05"]),
    # ---- ioclient --------------------------------------------------------------------------------------------
    ("i-state-after-callback", I, "        self._state = new_state\n        \n        # Call status callback if registered\n        if self.status_callback:\n            try:\n                await self.status_callback(self.state)", "        # Call status callback if registered\n        if self.status_callback:\n            try:\n                await self.status_callback(new_state)", ["C13", "C14"]),
    ("i-status-exc-propagates", I, "            except Exception as e:\n                self.logger.error(f\"Error in status callback: {e}\", exc_info=True)", "            except ValueError as e:\n                self.logger.error(f\"Error in status callback: {e}\", exc_info=True)", ["C14", "C13"]),
    ("i-backoff-max", I, "wait=wait_exponential(multiplier=0.5, max=10)", "wait=wait_exponential(multiplier=0.5, max=100)", ["C13"]),
    ("i-backoff-min0", I, "wait=wait_exponential(multiplier=0.5, max=10)", "wait=wait_exponential(multiplier=0.5, min=0, max=10, exp_base=1)", ["C13"]),
    ("i-connect-no-closed-check", I, "        if self._state == State.CLOSED:\n            self.logger.info(\"Object terminated. Cannot connect.\")\n            return\n", "", ["C14"]),
    ("i-recv-loop-no-reconnect", I, "                await self._update_state(State.DISCONNECTED)\n                asyncio.create_task(self.connect())\n        self.logger.info(\"Received loop terminated\")", "                await self._update_state(State.DISCONNECTED)\n        self.logger.info(\"Received loop terminated\")", ["C13"]),
    ("i-close-no-writer-close", I, "        if self.writer:\n            self.writer.close()\n        # Cancel the receive loop task if it exists", "        # Cancel the receive loop task if it exists", ["C14"]),
    ("i-close-keeps-queue-task", I, "        if self._process_queue_task and not self._process_queue_task.done():\n            self._process_queue_task.cancel()", "        if self._process_queue_task and self._process_queue_task.done():\n            self._process_queue_task.cancel()", ["C14"]),
    ("i-queue-callback-exc", I, "                except Exception as e:\n                    self.logger.error(f\"Error in receive callback: {e}\", exc_info=True)", "                except ValueError as e:\n                    self.logger.error(f\"Error in receive callback: {e}\", exc_info=True)", ["C12"]),
    ("i-ebyte-readexactly", I, "        data = await self.reader.readexactly(13)", "        data = await self.reader.read(13)", ["C12"]),
    ("i-text-strip", I, "        line = data.decode('utf-8', errors='ignore').strip()", "        line = data.decode('utf-8', errors='ignore')", ["C12", "C06"]),
    ("i-text-decode-strict", I, "        line = data.decode('utf-8', errors='ignore').strip()", "        line = data.decode('utf-8').strip()", ["C12", "C13"]),
    ("i-send-no-lock", I, "            async with self._send_lock:\n                for msg in msgs:", "            if True:\n                for msg in msgs:", ["C19"]),
    ("i-send-drain-once", I, "                    writer.write(msg)\n                    await writer.drain()\n", "                    writer.write(msg)\n", ["C19"]),
    ("i-serial-read-size", I, "        data = await self.reader.read(100)", "        data = await self.reader.read(19)", ["C12", "C20"]),
    ("i-serial-advance", I, "            self._buffer = self._buffer[start + 20:]", "            self._buffer = self._buffer[start + 2:]", ["C20", "C12"]),
]

# ---- generated code (the first occurrence of the text is changed) ------------------------------------------------
P = "nmea2000/pgns.py"
MUTANTS += [
    ("p-lookup-entry", P, '        1857: "Simrad",', '        1857: "Simrad AS",', ["C01"]),
    ("p-lookup-enc-entry", P, '    "Simrad" : 1857,', '    "Simrad" : 1858,', ["C09"]),
    ("p-dec-resolution", P, "decode_number(_data_raw_, running_bit_offset, 16, True, 0.1, -3276.7, 3276.4)",
     "decode_number(_data_raw_, running_bit_offset, 16, True, 0.01, -3276.7, 3276.4)", ["C01"]),
    ("p-dec-max-smaller", P, "decode_number(_data_raw_, running_bit_offset, 16, False, 0.01, 0, 655.32)",
     "decode_number(_data_raw_, running_bit_offset, 16, False, 0.01, 0, 655.31)", ["C01"]),
    ("p-dec-signed-flip", P, "decode_number(_data_raw_, running_bit_offset, 16, True, 0.01, -327.67, 327.64)",
     "decode_number(_data_raw_, running_bit_offset, 16, False, 0.01, -327.67, 327.64)", ["C01"]),
    ("p-dec-pk-flag", P, "nmea2000Message.fields.append(NMEA2000Field('instance', 'Instance', None, None, instance, instance_raw, None, FieldTypes.NUMBER, True))",
     "nmea2000Message.fields.append(NMEA2000Field('instance', 'Instance', None, None, instance, instance_raw, None, FieldTypes.NUMBER, False))", ["C01", "C17"]),
    ("p-dec-unit", P, "NMEA2000Field('voltage', 'Voltage', None, 'V', voltage,", "NMEA2000Field('voltage', 'Voltage', None, 'mV', voltage,", ["C01"]),
    ("p-enc-shift", P, "    data_raw |= (field_value & 0xFFFF) << 8\n    # current | Offset: 24", "    data_raw |= (field_value & 0xFFFF) << 9\n    # current | Offset: 24", ["C02", "C09"]),
    ("p-enc-signed-flip", P, "    field_value = encode_number(field.value, 16, True, 0.1)\n", "    field_value = encode_number(field.value, 16, False, 0.1)\n", ["C02", "C09"]),
    ("p-enc-mask", P, "    data_raw |= (field_value & 0xFFFF) << 24\n", "    data_raw |= (field_value & 0x7FFF) << 24\n", ["C02", "C09"]),
    ("p-match-dropped", P, "        (((data_raw >> 40) & 0xFF) == 10) and\n        (((data_raw >> 48) & 0xFF) == 6)\n", "        (((data_raw >> 48) & 0xFF) == 6)\n", ["C08"]),
    ("p-fast-flag", P, "    \"\"\"Return True if PGN 127508 is a fast PGN.\"\"\"\n    return False", "    \"\"\"Return True if PGN 127508 is a fast PGN.\"\"\"\n    return True", ["C07", "C06"]),
    ("p-ttl", P, "description='Battery Status', ttl=timedelta(milliseconds=1500)", "description='Battery Status', ttl=timedelta(milliseconds=1000)", ["C01"]),
]

# ---- second batch -------------------------------------------------------------------------------------------
MUTANTS += [
    ("d2-include-early", D, "            if len(self.include_pgns) > 0 and len(self.include_pgns_ids) == 0 and pgn not in self.include_pgns:", "            if len(self.include_pgns) > 0 and pgn not in self.include_pgns:", ["C10"]),
    ("d2-late-include-or", D, "and pgn not in self.include_pgns and id not in self.include_pgns_ids:", "and (pgn not in self.include_pgns or id not in self.include_pgns_ids):", ["C10"]),
    ("d2-window-claimed-too", D, "            if source_iso_name is None and self.build_network_map:\n                if self.started_at", "            if self.build_network_map:\n                if self.started_at", ["C11"]),
    ("d2-fast-first-always-resets", D, "        if frame_counter == 0 and sequence_counter != fast_pgn.sequence_counter:", "        if frame_counter == 0:", ["C04", "C03"]),
    ("d2-fast-no-first-check", D, "        if frame_counter != 0 and fast_pgn.payload_length == 0:\n            logger.debug(f\"Ignoring frame {frame_counter} for PGN {pgn} as first frame has not been received.\")\n            return None\n", "", ["C04", "C16"]),
    ("d2-fast-padding-leak", D, "for b in fast_pgn.frames[idx][::-1]][:fast_pgn.payload_length])[::-1]", "for b in fast_pgn.frames[idx][::-1]])[::-1]", ["C04", "C03"]),
    ("d2-dump-filter-and", D, "or nmea2000Message.PGN in self.dump_include_pgns or id in self.dump_include_pgns_ids):", "or (nmea2000Message.PGN in self.dump_include_pgns and id in self.dump_include_pgns_ids)):", ["C15"]),
    ("d2-split-no-lower", D, "                str_list.append(pgn.lower())", "                str_list.append(pgn)", ["C10", "C15"]),
    ("d2-units-not-lowered", D, "        self.preferred_units = {k: v.lower() for k, v in preferred_units.items()}", "        self.preferred_units = dict(preferred_units)", ["C18"]),
    ("d2-yd-reverse", D, "        can_data = parts[3:][::-1]\n", "        can_data = parts[3:11][::-1]\n", ["C07"]),
    ("e2-pdu2-ps-dest", E, "            ps = pgn_id & 0xFF\n", "            ps = dest & 0xFF\n", ["C05", "C06"]),
    ("e2-usb-pad", E, "            for i in range(8-len(message)):", "            for i in range(7-len(message)):", ["C06"]),
    ("e2-ebyte-pad", E, "+ message + bytes(8 - len(message)))", "+ message + bytes(max(0, 7 - len(message))))", ["C06"]),
    ("e2-acti-dest-mask", E, "        dest = nmea2000Message.destination & 0xFF\n", "        dest = nmea2000Message.destination & 0x7F\n", ["C06"]),
    ("e2-acti-pgn-width", E, '        pgn_part = f"{pgn:05X}"', '        pgn_part = f"{pgn:04X}"', ["C06"]),
    ("e2-fast-flag-none", E, "        if is_fast:\n            bytes_list = self._encode_fast_message(", "        if is_fast and len(can_data_bytes) > 8:\n            bytes_list = self._encode_fast_message(", ["C03", "C06"]),
    ("i2-no-closed-check-in-retry", I, "                    if self._state == State.CLOSED:\n                        self.logger.info(\"Object terminated. stop connect retry.\")\n                        return\n", "", ["C14"]),
    ("i2-update-state-always", I, "        if self._state == new_state:\n            return  # State hasn't changed, no need to do anything\n", "", ["C14"]),
    ("i2-recv-loop-forever", I, "            while self._state != State.CLOSED:\n                await self._receive_impl()", "            while True:\n                await self._receive_impl()", ["C14", "C13"]),
    ("i2-serial-marker-swapped", I, "            start = self._buffer.find(b\"\\xaa\\x55\")", "            start = self._buffer.find(b\"\\x55\\xaa\")", ["C12", "C20"]),
    ("i2-serial-drop-half-marker", I, "                keep = 1 if self._buffer.endswith(b\"\\xaa\") else 0", "                keep = 0", ["C12", "C20"]),
    ("i2-text-eof-returns", I, "            raise ConnectionError(\"Connection closed by the gateway\")", "            return", ["C13"]),
    ("i2-serial-eof-returns", I, "            raise ConnectionError(\"Serial connection closed\")", "            return", ["C13"]),
    ("i2-reconnect-before-status", I, "                await self._update_state(State.DISCONNECTED)\n                asyncio.create_task(self.connect())\n        self.logger.info(\"Received loop terminated\")", "                asyncio.create_task(self.connect())\n                await self._update_state(State.DISCONNECTED)\n        self.logger.info(\"Received loop terminated\")", ["C13", "C14"]),
    ("i2-close-state-late", I, "        await self._update_state(State.CLOSED)\n        if self.writer:\n            self.writer.close()", "        if self.writer:\n            self.writer.close()\n        await self._update_state(State.CLOSED)", ["C14"]),
    ("i3-serial-cfg-port-leak", I, "        except Exception:\n            # The attempt fails and is retried (or given up after close()): release the port that was just\n            # opened, nothing else ever closes it.\n            self.writer.close()\n            raise", "        except Exception:\n            raise", ["C14"]),
    ("i3-serial-cfg-swallowed", I, "            self.writer.close()\n            raise\n        self.logger.info(f\"Sent config packet", "            self.writer.close()\n            return\n        self.logger.info(f\"Sent config packet", ["C13"]),
    ("m2-fromjson-fields", M, "        msg.fields = [NMEA2000Field(**field) for field in data.get(\"fields\", [])]", "        msg.fields = [NMEA2000Field(**field) for field in data.get(\"fields\", [])][:32]", ["C15"]),
]

# changes under which every property still holds: the checks must stay quiet (no false alarm)
# (more permissive range checks and an undefined STRING_LAU encoding byte are outside what C01 states)
HARMLESS = {"e-acti-lower", "i-text-strip", "i-send-drain-once", "i-serial-read-size",
            "u-float-max-dropped", "u-num-tolerance", "u-num-min-unchecked", "u-strlau-ascii-flag",
            # equivalent on well-formed input: priorities are 0..7, the plain format's length equals its token count,
            # the clients hand decode_usb exactly 20 bytes, connect() tests CLOSED again inside its retry loop
            "d-acti-prio-mask", "d-basic-length", "d-usb-len20", "i-connect-no-closed-check"}
# (a continuation frame never matches the initial sequence counter -1; Yacht Devices lines carry at most 8 data
#  bytes; close() cancels the receive task, so its loop condition is never consulted after CLOSED)
HARMLESS |= {"e2-acti-pgn-width", "d2-fast-no-first-check", "d2-yd-reverse", "i2-recv-loop-forever"}
# (create_task only schedules connect(): the state is DISCONNECTED and its notification has started before connect() takes its
#  first step, whichever line comes first; no definition of the database has more than 32 fields)
HARMLESS |= {"i2-reconnect-before-status", "m2-fromjson-fields"}
