----------------------------- MODULE MC_CanId -----------------------------
(* B1 for C05: the identifier laws of N2KCanId.                            *)
(*                                                                         *)
(* One TLC state = one (priority, R/DP/PF block) pair; the invariants      *)
(* quantify over the PS byte and over Srcs (and Dsts) inside the state, so *)
(* that with Srcs = 0..255 the run covers all 2^29 identifiers with only   *)
(* 8 x 1024 states.                                                        *)
EXTENDS N2KCanId, TLC

CONSTANTS Prios, His, Srcs, TSrcs, Dsts

AllHis   == 0..1023
AllBytes == 0..255
AllPrios == 0..7

VARIABLES kind, hi, prio, stage
vars == <<kind, hi, prio, stage>>

\* The choice is staged (kind/priority, then the block in two halves) only so
\* that TLC's workers share the evaluation; stage 2 states carry the laws.
Init == kind = "none" /\ hi = 0 /\ prio = 0 /\ stage = 0
Next ==
  \/ /\ stage = 0
     /\ kind' \in {"id", "tuple"} /\ prio' \in Prios /\ hi' = 0 /\ stage' = 1
  \/ /\ stage = 1
     /\ \E h \in 0..31 : hi' = h * 32
     /\ stage' = 2 /\ UNCHANGED <<kind, prio>>
  \/ /\ stage = 2
     /\ \E l \in 0..31 : hi' = hi + l /\ hi' \in His
     /\ stage' = 3 /\ UNCHANGED <<kind, prio>>
Spec == Init /\ [][Next]_vars

IdLaw ==
  kind = "id" /\ stage = 3 =>
    \A ps \in AllBytes, s \in Srcs :
       IdRoundTrip(prio * TwoTo26 + (hi * 256 + ps) * TwoTo8 + s)

TupleLaw ==
  kind = "tuple" /\ stage = 3 =>
    \A ps \in AllBytes, s \in TSrcs, d \in Dsts :
       TupleRoundTrip(hi * 256 + ps, s, d, prio)

\* (Injectivity on canonical requests follows from TupleLaw: for canonical pgn,
\*  and d = 255 when PDU2, the right-hand side is the request itself.)

\* Vacuity witnesses: both PDU classes occur in the explored set.
SeesPDU1 == \E h \in His : IsPDU1(h * 256)
SeesPDU2 == \E h \in His : ~IsPDU1(h * 256)
ASSUME SeesPDU1 /\ SeesPDU2
=============================================================================
