----------------------------- MODULE Trace_Client -----------------------------
(***************************************************************************)
(* Validation of event logs recorded from the real gateway clients (on the *)
(* virtual-time loop, harness/vloop.py) against the monitor of             *)
(* N2KClientMon: the same clauses MC_Client proves for the model.          *)
(* IN_FILE: sequence of logs; log = sequence of events [e, st, t, k, s,    *)
(* conn, r].  One TLC state per event; verdicts are total.                 *)
(***************************************************************************)
EXTENDS N2KClientMon, Json, IOUtils, TLC

Logs == JsonDeserialize(IOEnv.IN_FILE)

VARIABLES n, l, mon, bad
vars == <<n, l, mon, bad>>
Focus == IF "FOCUS" \in DOMAIN IOEnv THEN IOEnv.FOCUS ELSE ""
Mon0 == [MonInit EXCEPT !.focus = Focus]
Init == n = 1 /\ l = 1 /\ mon = Mon0 /\ bad = <<>>

Step == /\ n <= Len(Logs) /\ l <= Len(Logs[n])
        /\ mon' = MonStep(mon, Logs[n][l])
        /\ bad' = IF mon.viol = "" /\ mon'.viol # "" THEN Append(bad, [k |-> n, l |-> l, c |-> mon'.viol]) ELSE bad
        /\ l' = l + 1 /\ n' = n
NextLog == /\ n <= Len(Logs) /\ l > Len(Logs[n])
           /\ n' = n + 1 /\ l' = 1 /\ mon' = Mon0 /\ bad' = bad
Finish == /\ n = Len(Logs) + 1 /\ l = 1
          /\ JsonSerialize(IOEnv.OUT_FILE, [n |-> Len(Logs), bad |-> bad])
          /\ n' = n + 1 /\ UNCHANGED <<l, mon, bad>>
Next == Step \/ NextLog \/ Finish
Spec == Init /\ [][Next]_vars
=============================================================================
