------------------------------- MODULE MC_FP -------------------------------
(***************************************************************************)
(* B1 for C04 (and the reassembly half of C03): the receiver of            *)
(* N2KFastPacket behind a network that interleaves streams, reorders,      *)
(* duplicates and loses the frames that follow a message's first frame.    *)
(*                                                                         *)
(* Ground truth (what was really sent) is kept next to the receiver; the   *)
(* invariants are the clauses of the property.                             *)
(***************************************************************************)
EXTENDS N2KFastPacket

CONSTANTS Streams, Lens, MaxMsgs, MaxDup, SeqChoices, Pads

VARIABLES buf,      \* receiver: stream -> buffer | None
          cur,      \* stream -> index of the message whose first frame arrived last (0 = none)
          sent,     \* stream -> sequence of [len, seq, pad] (ground truth)
          arr,      \* stream -> frame counters of the current message that have arrived
          gone,     \* stream -> frame counters of the current message lost for good
          dups,     \* duplicates still allowed
          outs,     \* stream -> message indices returned so far, in order
          out,      \* what the last step returned: [some, s, payload]
          ev        \* the last event: [a, s, m, fc] (for replay into the real decoder)
vars == <<buf, cur, sent, arr, gone, dups, outs, out, ev>>
\* ev only labels the transition (for replay); states that differ in nothing else are the same state
View == <<buf, cur, sent, arr, gone, dups, outs, out>>

Quiet == [some |-> FALSE, s |-> 0, payload |-> <<>>]

Init == /\ buf = [s \in Streams |-> None] /\ cur = [s \in Streams |-> 0]
        /\ sent = [s \in Streams |-> <<>>] /\ arr = [s \in Streams |-> {}]
        /\ gone = [s \in Streams |-> {}] /\ dups = MaxDup
        /\ outs = [s \in Streams |-> <<>>] /\ out = Quiet
        /\ ev = [a |-> "init", s |-> 0, m |-> 0, fc |-> 0]

CurMeta(s) == sent[s][cur[s]]

\* hand frame fc of message m of stream s to the receiver
Arrive(s, m, meta, fc) ==
  LET r == Recv(buf[s], Frame(s, m, meta.len, meta.seq, fc, meta.pad)) IN
    /\ buf' = [buf EXCEPT ![s] = r.buf]
    /\ out' = IF r.out.some THEN [some |-> TRUE, s |-> s, payload |-> r.out.payload] ELSE Quiet
    /\ outs' = IF r.out.some THEN [outs EXCEPT ![s] = Append(@, m)] ELSE outs

StartMsg(s) ==
  /\ cur[s] < MaxMsgs
  /\ \E L \in Lens, q \in SeqChoices, p \in Pads :
       /\ (cur[s] > 0 => q # CurMeta(s).seq)          \* consecutive messages differ (C03, standard)
       /\ LET meta == [len |-> L, seq |-> q, pad |-> p] IN
            /\ sent' = [sent EXCEPT ![s] = Append(@, meta)]
            /\ cur' = [cur EXCEPT ![s] = @ + 1]
            /\ arr' = [arr EXCEPT ![s] = {0}] /\ gone' = [gone EXCEPT ![s] = {}]
            /\ Arrive(s, cur[s] + 1, meta, 0)
            /\ ev' = [a |-> "start", s |-> s, m |-> cur[s] + 1, fc |-> 0]
  /\ UNCHANGED dups

\* The first frame of the next message is lost.  The property only quantifies over faults on the
\* frames after a first frame, but it also promises that "after any loss the next complete message
\* is returned intact"; this action covers the unambiguous case: the stream's previous message (if
\* any) had arrived completely, so no receiver can confuse the orphaned frames with anything.
LoseFirst(s) ==
  /\ cur[s] < MaxMsgs
  /\ (IF cur[s] = 0 THEN TRUE ELSE arr[s] = Fcs(CurMeta(s).len))
  /\ \E L \in Lens, q \in SeqChoices, p \in Pads :
       /\ (cur[s] > 0 => q # CurMeta(s).seq)
       /\ sent' = [sent EXCEPT ![s] = Append(@, [len |-> L, seq |-> q, pad |-> p])]
  /\ cur' = [cur EXCEPT ![s] = @ + 1]
  /\ arr' = [arr EXCEPT ![s] = {}] /\ gone' = [gone EXCEPT ![s] = {0}]
  /\ out' = Quiet
  /\ ev' = [a |-> "losefirst", s |-> s, m |-> cur[s] + 1, fc |-> 0]
  /\ UNCHANGED <<buf, dups, outs>>

Pending(s) == IF cur[s] = 0 THEN {} ELSE (Fcs(CurMeta(s).len) \ {0}) \ (arr[s] \cup gone[s])

Deliver(s) ==
  \E fc \in Pending(s) :
    /\ arr' = [arr EXCEPT ![s] = @ \cup {fc}]
    /\ Arrive(s, cur[s], CurMeta(s), fc)
    /\ ev' = [a |-> "deliver", s |-> s, m |-> cur[s], fc |-> fc]
    /\ UNCHANGED <<cur, sent, gone, dups>>

Drop(s) ==
  \E fc \in Pending(s) :
    /\ gone' = [gone EXCEPT ![s] = @ \cup {fc}]
    /\ out' = Quiet
    /\ ev' = [a |-> "drop", s |-> s, m |-> cur[s], fc |-> fc]
    /\ UNCHANGED <<buf, cur, sent, arr, dups, outs>>

\* a stray copy of a non-first frame of the current message that already arrived
DupCur(s) ==
  /\ dups > 0 /\ cur[s] > 0
  /\ \E fc \in arr[s] \ {0} :
       /\ Arrive(s, cur[s], CurMeta(s), fc)
       /\ ev' = [a |-> "dup", s |-> s, m |-> cur[s], fc |-> fc]
  /\ dups' = dups - 1
  /\ UNCHANGED <<cur, sent, arr, gone>>

\* a stray / late non-first frame of an earlier message of the stream whose sequence counter
\* differs from the current message's (equal counters are indistinguishable for any receiver)
DupOld(s) ==
  /\ dups > 0 /\ cur[s] > 1
  /\ \E m \in 1..(cur[s] - 1) :
       /\ sent[s][m].seq # CurMeta(s).seq
       /\ \E fc \in Fcs(sent[s][m].len) \ {0} :
            /\ Arrive(s, m, sent[s][m], fc)
            /\ ev' = [a |-> "dupold", s |-> s, m |-> m, fc |-> fc]
  /\ dups' = dups - 1
  /\ UNCHANGED <<cur, sent, arr, gone>>

Next == \E s \in Streams : StartMsg(s) \/ LoseFirst(s) \/ Deliver(s) \/ Drop(s) \/ DupCur(s) \/ DupOld(s)
Spec == Init /\ [][Next]_vars

----------------------------------------------------------------------------
(* The property (C04), clause by clause *)

\* whatever is returned is exactly the payload of the stream's current message: nothing mixed in
\* from other streams or other messages, no padding
NoFabrication ==
  out.some => /\ cur[out.s] > 0
                /\ out.payload = Payload(out.s, cur[out.s], CurMeta(out.s).len)

\* a message has been returned if and only if all of its frames have arrived: it is returned at the
\* step where its last missing frame arrives, and a message with a lost frame is never returned
OnLast ==
  \A s \in Streams : cur[s] > 0 =>
     ((\E k \in 1..Len(outs[s]) : outs[s][k] = cur[s]) <=> arr[s] = Fcs(CurMeta(s).len))

NoRedelivery ==
  \A s \in Streams : \A i, j \in 1..Len(outs[s]) : outs[s][i] = outs[s][j] => i = j

\* returned messages appear in the order they were started (follows, stated for the replay)
InOrder ==
  \A s \in Streams : \A i, j \in 1..Len(outs[s]) : i < j => outs[s][i] < outs[s][j]

\* C03's second half: with no faults the receiver returns nothing until the last frame
\* (instance of OnLast); listed so that the coverage gate can see both outcomes occur
SeesOutput == ~out.some
SeesLoss == \A s \in Streams : gone[s] = {}
=============================================================================
