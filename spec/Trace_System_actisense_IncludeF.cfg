SPECIFICATION TSpec
CONSTANTS
  Format = "actisense"
  ChunkSizes = {0}
  Cfg <- IncludeF
CHECK_DEADLOCK FALSE
