SPECIFICATION Spec
CONSTANT MaxW = 8
INVARIANT IncLaw
INVARIANT ReprLaw
INVARIANT RoundLaw
INVARIANT InverseLaw
CHECK_DEADLOCK FALSE
