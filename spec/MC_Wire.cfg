SPECIFICATION Spec
INVARIANT EByteLaw
INVARIANT UsbLaw
INVARIANT ChecksumLaw
INVARIANT YdLaw
INVARIANT SplitLaw
CHECK_DEADLOCK FALSE
