SPECIFICATION Spec
CONSTANTS
  Streams = {1, 2, 3, 4}
  Lens = {0, 1, 5, 6, 7, 8, 13, 14, 20, 27}
  MaxMsgs = 4
  MaxDup = 4
  SeqChoices = {0, 1, 2, 6, 7}
  Pads = {"none", "ff", "00"}
CHECK_DEADLOCK FALSE
