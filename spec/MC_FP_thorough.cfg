SPECIFICATION Spec
CONSTANTS
  Streams = {1, 2}
  Lens = {5, 7, 14}
  MaxMsgs = 2
  MaxDup = 1
  SeqChoices = {0, 1}
  Pads = {"none", "ff"}
VIEW View
INVARIANT NoFabrication
INVARIANT OnLast
INVARIANT NoRedelivery
INVARIANT InOrder
CHECK_DEADLOCK FALSE
