------------------------------ MODULE N2KCodec ------------------------------
(***************************************************************************)
(* What a payload means under a database definition (decode side), which   *)
(* definition a payload selects, and which codes an encoder may produce.   *)
(*                                                                         *)
(* Code: pgns.py (418 generated decode_pgn_* / encode_pgn_* functions and  *)
(* 25 match dispatchers), utils.py (decode_number, decode_int, ...).       *)
(*                                                                         *)
(* Observed values (projection of Python objects, harness/project.py):     *)
(*   [k, neg, mag, exact, s, cp, n]                                        *)
(*   k = "none"   Python None                                              *)
(*   k = "num"    finite number = (neg, mag) ticks of the field's           *)
(*                resolution (after removing its Offset); exact = the      *)
(*                number is that multiple up to float rounding             *)
(*   k = "str"    s = text, cp = its code points                           *)
(*   k = "bytes"  mag = bits of the big-endian integer value of the bytes  *)
(*   k = "date"   n = days since 1970-01-01                                *)
(*   k = "time"   n = seconds since midnight                               *)
(*   k = "f32"    mag = the IEEE-754 single bits                           *)
(*   k = "other"  anything else                                            *)
(***************************************************************************)
EXTENDS N2KBits, N2KDb

Positioned(f) == f.off >= 0 /\ f.len >= 0
Code(f, bytes) == Slice(bytes, f.off, f.len)

\* Running offsets (python.PGNs.j2: running_bit_offset).  A field without BitOffset starts where the previous one
\* ended; a STRING_LAU field occupies as many bytes as its first byte says (length and type byte included); after
\* a field whose extent the payload does not determine here (KEY_VALUE, variable BINARY, unsupported types) the
\* positions are unknown (-1) and only metadata is judged.
ByteAtBit(bytes, o) == IF o % 8 = 0 /\ o \div 8 + 1 <= Len(bytes) THEN bytes[o \div 8 + 1] ELSE 0
RECURSIVE EffOffR(_, _, _, _)
EffOffR(d, bytes, k, running) ==
  IF k > Len(d.fields) THEN <<>>
  ELSE LET f == d.fields[k]
           here == IF f.off >= 0 THEN f.off ELSE running
           next == IF here < 0 THEN -1
                   ELSE IF f.kind = "strlau" THEN here + 8 * ByteAtBit(bytes, here) + (IF f.len >= 0 THEN f.len ELSE 0)
                   ELSE IF f.kind \in {"keyvalue", "ftlookup", "unsupported"} \/ (f.kind = "bin" /\ f.len < 0) THEN -1
                   ELSE IF f.len >= 0 THEN here + f.len ELSE here
       IN <<here>> \o EffOffR(d, bytes, k + 1, next)
EffOff(d, bytes) == EffOffR(d, bytes, 1, 0)
At(f, o) == [f EXCEPT !.off = o]

\* the "not available" pattern: all ones, or 0111..1 for two's complement fields of 4+ bits
Sentinel(f, code) ==
  IF f.twos /\ f.len >= 4
  THEN code[f.len] = 0 /\ \A k \in 1..(f.len - 1) : code[k] = 1
  ELSE AllOnes(code)

Ticks(f, code) == IF f.twos THEN TwosComplement(code) ELSE Unsigned(code)
InDbRange(f, code) == f.hasRange => (SMLeq(f.lo, Ticks(f, code)) /\ SMLeq(Ticks(f, code), f.hi))

ObsTicks(ov) == SM(ov.neg, ov.mag)
\* A double carries 53 significant bits: where the tick count needs more than 50, the reported
\* number is required to agree to 2^-48 relative ("within double-precision rounding").
NumIs(ov, t) ==
  /\ ov.k = "num" /\ ov.exact
  /\ IF Len(t.mag) <= 50 THEN SMEq(ObsTicks(ov), t) ELSE SMNear(ObsTicks(ov), t, 48)

----------------------------------------------------------------------------
(* Per-kind value clauses; each returns "ok" or the name of the clause.    *)

NumVerdict(f, code, ov, tag) ==
  IF Sentinel(f, code)
  THEN IF f.sentinelInRange
       THEN (IF ov.k = "none" \/ NumIs(ov, Ticks(f, code)) THEN "ok" ELSE tag \o ".sentinel")
       ELSE (IF ov.k = "none" THEN "ok" ELSE tag \o ".not-available")
  ELSE IF ov.k = "none" THEN tag \o ".spurious-none"
  ELSE IF NumIs(ov, Ticks(f, code)) THEN "ok"
  ELSE tag \o ".ticks"

IntVerdict(code, ov, tag) ==
  IF NumIs(ov, Unsigned(code)) THEN "ok" ELSE tag \o ".code"

LookupVerdict(f, code, ov) ==
  LET tbl == Lookups[f.lookup]
      key == IF Fits30(code) THEN ToString(ToNat(code)) ELSE "?"
  IN IF key \in DOMAIN tbl
     THEN (IF ov.k = "str" /\ ov.s = tbl[key] THEN "ok" ELSE "value.lookup-name")
     ELSE (IF ov.k = "none" THEN "ok" ELSE "value.lookup-unknown")

\* INDIRECT_LOOKUP: the text is looked up under the pair (code of the companion field, own code)
IndirectVerdict(f, bytes, code, ov) ==
  LET tbl == IndirectLookups[f.indirect]
      comp == Slice(bytes, f.indOff, f.indLen)
      key == IF Fits30(code) /\ Fits30(comp) THEN ToString(ToNat(comp)) \o "_" \o ToString(ToNat(code)) ELSE "?"
  IN IF f.indOff < 0 THEN "ok"
     ELSE IF key \in DOMAIN tbl
     THEN (IF ov.k = "str" /\ ov.s = tbl[key] THEN "ok" ELSE "value.indirect-lookup-name")
     ELSE (IF ov.k = "none" THEN "ok" ELSE "value.indirect-lookup-unknown")

RECURSIVE JoinBits(_, _, _, _)
JoinBits(tbl, code, k, acc) ==
  IF k > Len(code) THEN acc
  ELSE LET key == ToString(k - 1) IN
    IF code[k] = 1 /\ key \in DOMAIN tbl
    THEN JoinBits(tbl, code, k + 1, IF acc = "" THEN tbl[key] ELSE acc \o ", " \o tbl[key])
    ELSE JoinBits(tbl, code, k + 1, acc)

BitLookupVerdict(f, code, ov) ==
  IF ov.k = "str" /\ ov.s = JoinBits(BitLookups[f.lookup], code, 1, "") THEN "ok" ELSE "value.bitlookup"

\* STRING_FIX: judged only on ASCII / 0xFF content (the rendering of other bytes is UTF-8 business)
WS == {9, 10, 11, 12, 13, 28, 29, 30, 31, 32}
StrClean(bs) == \A k \in 1..Len(bs) : bs[k] < 128 \/ bs[k] = 255
StrText(bs) ==
  LET nf   == SelectSeq(bs, LAMBDA x : x # 255)
      stop == {k \in 1..Len(nf) : nf[k] = 0 \/ nf[k] = 64}
      pre  == IF stop = {} THEN nf ELSE SubSeq(nf, 1, SetMin(stop) - 1)
      ink  == {k \in 1..Len(pre) : pre[k] \notin WS}
  IN IF ink = {} THEN <<>> ELSE SubSeq(pre, SetMin(ink), SetMax(ink))

StrFixVerdict(f, bytes, ov, tag) ==
  LET bs == BytesAt(bytes, f.off, f.len) IN
    IF ~StrClean(bs) \/ f.off % 8 # 0 \/ f.len % 8 # 0 THEN "ok"
    ELSE IF ov.k = "str" /\ ov.cp = StrText(bs) THEN "ok" ELSE tag \o ".text"

\* STRING_LAU: [length incl. the two header bytes][1 = ASCII/UTF-8, 0 = UTF-16][text]; judged for single-byte text
LauBytes(bytes, off) ==
  LET n == ByteAtBit(bytes, off) IN
    [k \in 1..(IF n > 2 THEN n - 2 ELSE 0) |-> ByteAtBit(bytes, off + 8 * (k + 1))]
StrLauVerdict(f, bytes, ov, tag) ==
  LET n == ByteAtBit(bytes, f.off)
      txt == LauBytes(bytes, f.off)
  IN IF f.off % 8 # 0 \/ (f.off \div 8) + 2 > Len(bytes) THEN "ok"               \* no room for the header: not judged
     ELSE IF ByteAtBit(bytes, f.off + 8) # 1 \/ \E k \in 1..Len(txt) : txt[k] >= 128 \/ txt[k] = 0 THEN "ok"
     ELSE IF (f.off \div 8) + n > Len(bytes) THEN "ok"                            \* runs past the payload: not judged
     ELSE IF ov.k = "str" /\ ov.cp = txt THEN "ok" ELSE tag \o ".lau-text"
\* STRING_LZ: [length][text][0]
StrLzVerdict(f, bytes, ov, tag) ==
  LET n == ByteAtBit(bytes, f.off)
      txt == [k \in 1..n |-> ByteAtBit(bytes, f.off + 8 * k)]
  IN IF f.off % 8 # 0 \/ (f.off \div 8) + 1 + n > Len(bytes) THEN "ok"
     ELSE IF \E k \in 1..n : txt[k] >= 128 \/ txt[k] = 0 THEN "ok"               \* NUL inside the counted text: not judged (as for STRING_LAU)
     ELSE IF ov.k = "str" /\ ov.cp = txt THEN "ok" ELSE tag \o ".lz-text"

BinVerdict(code, ov, tag) ==
  IF ov.k = "bytes" /\ ov.mag = Trim(code) THEN "ok" ELSE tag \o ".bytes"

F32NaN(code) == Len(code) = 32 /\ (\A k \in 24..31 : code[k] = 1) /\ (\E k \in 1..23 : code[k] = 1)
FloatVerdict(code, ov, tag) ==
  IF F32NaN(code) THEN "ok"
  ELSE IF ov.k = "f32" /\ ov.mag = Trim(code) THEN "ok" ELSE tag \o ".float-bits"

TimeVerdict(f, code, ov) ==
  LET t == Ticks(f, code) IN
    IF Sentinel(f, code) /\ ~f.sentinelInRange THEN (IF ov.k = "none" THEN "ok" ELSE "value.not-available")
    ELSE IF Sentinel(f, code) THEN "ok"
    ELSE IF ~(f.resNum = 1 /\ ~t.neg /\ Fits30(t.mag)) THEN "ok"
    ELSE LET secs == ToNat(t.mag) \div f.resDen IN
      IF secs >= 86400 THEN "ok"
      ELSE IF ov.k = "time" /\ ov.n = secs THEN "ok" ELSE "value.time"

DateVerdict(f, code, ov) ==
  LET t == Ticks(f, code) IN
    IF Sentinel(f, code) /\ ~f.sentinelInRange THEN (IF ov.k = "none" THEN "ok" ELSE "value.not-available")
    ELSE IF Sentinel(f, code) THEN "ok"
    ELSE IF ~(~t.neg /\ Fits30(t.mag)) THEN "ok"
    ELSE IF ov.k = "date" /\ ov.n = ToNat(t.mag) THEN "ok" ELSE "value.date"

First(a, b) == IF a # "ok" THEN a ELSE b

ValueVerdict(f, bytes, of) ==
  LET code == Code(f, bytes) IN
    CASE f.kind = "num"       -> First(NumVerdict(f, code, of.v, "value"), NumVerdict(f, code, of.r, "raw"))
      [] f.kind = "time"      -> First(NumVerdict(f, code, of.r, "raw"), TimeVerdict(f, code, of.v))
      [] f.kind = "date"      -> First(NumVerdict(f, code, of.r, "raw"), DateVerdict(f, code, of.v))
      [] f.kind = "lookup"    -> First(IntVerdict(code, of.r, "raw"), LookupVerdict(f, code, of.v))
      [] f.kind = "bitlookup" -> First(IntVerdict(code, of.r, "raw"), BitLookupVerdict(f, code, of.v))
      [] f.kind = "int"       -> First(IntVerdict(code, of.v, "value"), IntVerdict(code, of.r, "raw"))
      [] f.kind = "strfix"    -> First(StrFixVerdict(f, bytes, of.v, "value"), StrFixVerdict(f, bytes, of.r, "raw"))
      [] f.kind = "bin"       -> First(BinVerdict(code, of.v, "value"), BinVerdict(code, of.r, "raw"))
      [] f.kind = "float"     -> First(FloatVerdict(code, of.v, "value"), FloatVerdict(code, of.r, "raw"))
      [] f.kind = "indirect"  -> First(IntVerdict(code, of.r, "raw"), IndirectVerdict(f, bytes, code, of.v))
      [] OTHER                -> "ok"

VarValueVerdict(f, bytes, of) ==
  CASE f.kind = "strlau" -> First(StrLauVerdict(f, bytes, of.v, "value"), StrLauVerdict(f, bytes, of.r, "raw"))
    [] f.kind = "strlz"  -> First(StrLzVerdict(f, bytes, of.v, "value"), StrLzVerdict(f, bytes, of.r, "raw"))
    [] OTHER -> "ok"

MetaVerdict(f, of) ==
  IF of.id # f.id THEN "meta.id"
  ELSE IF of.name # f.name THEN "meta.name"
  ELSE IF of.unit # f.unit THEN "meta.unit"
  ELSE IF of.qty # f.qty THEN "meta.quantity"
  ELSE IF of.type # f.type THEN "meta.type"
  ELSE IF of.pk # f.pk THEN "meta.primary-key"
  ELSE "ok"

\* KEY_VALUE fields take their metadata from the looked-up key: only the id is fixed
FieldVerdict(f, bytes, of) ==
  IF f.kind = "keyvalue" THEN "ok"
  ELSE First(MetaVerdict(f, of),
             IF f.kind \in {"strlau", "strlz"} THEN (IF f.off >= 0 THEN VarValueVerdict(f, bytes, of) ELSE "ok")
             ELSE IF Positioned(f) THEN ValueVerdict(f, bytes, of) ELSE "ok")

----------------------------------------------------------------------------
(* Selection of the definition (C08) *)

MatchOK(d, bytes) ==
  \A k \in 1..Len(d.fields) :
    LET f == d.fields[k] IN
      f.match # -1 => (Positioned(f) /\ Trim(Slice(bytes, f.off, f.len)) = Trim(NatBits(f.match, 30)))

\* index into Defs of the definition a payload of this PGN is decoded with; 0 = not decoded
Select(pgn, bytes) ==
  LET c == DefsOfPgn(pgn) IN
    IF Len(c) = 0 THEN 0
    ELSE IF Len(c) = 1 THEN c[1]
    ELSE LET nf == SelectSeq(c, LAMBDA i : ~Defs[i].fallback /\ MatchOK(Defs[i], bytes))
             fb == SelectSeq(c, LAMBDA i : Defs[i].fallback)
         IN IF nf # <<>> THEN nf[1] ELSE IF fb # <<>> THEN fb[1] ELSE 0

----------------------------------------------------------------------------
(* "Whenever every field of a well-formed payload lies inside its database *)
(*  range, decoding returns a message" — the antecedent.                   *)

FieldInRange(f, bytes) ==
  CASE f.kind \in {"num", "time", "date"} ->
          Positioned(f) /\ (Sentinel(f, Code(f, bytes)) \/ InDbRange(f, Code(f, bytes)))
    \* a float is certainly fine when it is zero (and zero is in range) or carries the not-available pattern (all ones)
    [] f.kind = "float" -> Positioned(f) /\ ((f.zeroOk /\ AllZero(Code(f, bytes))) \/ AllOnes(Code(f, bytes)))
    [] OTHER -> TRUE

AllInRange(d, bytes) ==
  LET offs == EffOff(d, bytes) IN
  /\ d.decodable
  /\ \A k \in 1..Len(d.fields) : offs[k] >= 0 /\ FieldInRange(At(d.fields[k], offs[k]), bytes)
  \* a variable-length binary field needs its length: the length field must not be "not available"
  /\ \A k \in 1..Len(d.fields) :
        (d.fields[k].kind = "bin" /\ d.fields[k].len < 0 /\ d.fields[k].lenField > 0) =>
           LET lf == At(d.fields[d.fields[k].lenField], offs[d.fields[k].lenField]) IN
             Positioned(lf) /\ ~Sentinel(lf, Code(lf, bytes))
  \* strings must lie inside the payload (a well-formed payload)
  /\ \A k \in 1..Len(d.fields) :
        (d.fields[k].kind = "strlau" => (offs[k] % 8 = 0 /\ ByteAtBit(bytes, offs[k]) >= 2
                                          /\ (offs[k] \div 8) + ByteAtBit(bytes, offs[k]) <= Len(bytes)))
        /\ (d.fields[k].kind = "strlz" => (offs[k] % 8 = 0 /\ (offs[k] \div 8) + 1 + ByteAtBit(bytes, offs[k]) <= Len(bytes)))
----------------------------------------------------------------------------
(* Encode side (C02, C09).  A requested number is described exactly by     *)
(*   fl  = floor((value - Offset) / Resolution)   (sign-magnitude)         *)
(*   cls = "zero" (exactly on a step) | "lt" | "half" | "gt"               *)
(* "to within half a resolution step": on an exact tie either neighbour.   *)

AllowedTicks(fl, cls) ==
  CASE cls \in {"zero", "lt"} -> {fl}
    [] cls = "half"           -> {fl, SMInc(fl)}
    [] cls = "gt"             -> {SMInc(fl)}

\* the ticks of the largest / smallest code that is not the not-available pattern
MaxCode(f) == IF f.twos /\ f.len >= 4
              THEN [k \in 1..f.len |-> IF k = 1 \/ k = f.len THEN 0 ELSE 1]     \* 0111..10
              ELSE IF f.twos
              THEN [k \in 1..f.len |-> IF k = f.len THEN 0 ELSE 1]              \* 011 (sentinel is 111)
              ELSE [k \in 1..f.len |-> IF k = 1 THEN 0 ELSE 1]                  \* 111..10
MinCode(f) == IF f.twos THEN [k \in 1..f.len |-> IF k = f.len THEN 1 ELSE 0]    \* 100..0
              ELSE [k \in 1..f.len |-> 0]
SentinelCode(f) == IF f.twos /\ f.len >= 4 THEN [k \in 1..f.len |-> IF k = f.len THEN 0 ELSE 1]
                   ELSE [k \in 1..f.len |-> 1]
Representable(f, t) == /\ SMLeq(Ticks(f, MinCode(f)), t) /\ SMLeq(t, Ticks(f, MaxCode(f)))
                       /\ ~SMEq(t, Ticks(f, SentinelCode(f)))
SomeRepresentable(f, fl, cls) == \E t \in AllowedTicks(fl, cls) : Representable(f, t)

\* clause for one numeric field of an encoder output
EncNumVerdict(f, code, req) ==
  IF req.k = "na" THEN (IF Sentinel(f, code) THEN "ok" ELSE "encode.not-available-lost")
  ELSE IF Sentinel(f, code) THEN "encode.value-became-not-available"
  ELSE IF Ticks(f, code) \in AllowedTicks(SM(req.neg, req.mag), req.cls) THEN "ok"
  \* beyond 2^50 ticks a double cannot name a single step: agreement to 2^-48 relative
  ELSE IF Len(Trim(req.mag)) > 50 /\ SMNear(Ticks(f, code), SM(req.neg, req.mag), 48) THEN "ok"
  ELSE "encode.wrong-code"
=============================================================================
