SPECIFICATION Spec
CONSTANTS
  NC = 3
  NU = 2
  MaxConn = 3
  MaxRefuse = 2
  MaxFeed = 1
  MaxEof = 1
  SlowSet = {"C", "D", "X"}
  CfgWrite = FALSE
  NCl = 2
  MaxSend = 1
INVARIANT MonitorQuiet
INVARIANT OneReceivePath
INVARIANT LockDiscipline
INVARIANT NeverStuck
INVARIANT AllShut
PROPERTY ClosedFinal
CHECK_DEADLOCK FALSE
