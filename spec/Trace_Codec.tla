---------------------------- MODULE Trace_Codec ----------------------------
(***************************************************************************)
(* Record validation for the codec properties.  Every record is one        *)
(* observation of the real library (harness/props/c01.py etc.); TLC judges *)
(* it against N2KCodec and writes the failing clauses.                     *)
(*   IOEnv.MODE selects the predicate; verdicts are total (no abort).      *)
(***************************************************************************)
EXTENDS N2KCodec

Recs == JsonDeserialize(IOEnv.IN_FILE)

Ok == <<>>
Fail(f, c) == <<[f |-> f, c |-> c]>>

\* ---- C01 ----------------------------------------------------------------
\* rec: [pgn, p (payload bytes), ret ("msg"|"err"|"none"), hdr [pgn,id,desc,ttl], f (observed fields)]
C01Verdict(rec) ==
  IF rec.ret = "msg" THEN
    IF ~HasId(rec.hdr.id) THEN Fail(0, "hdr.unknown-id")
    ELSE LET d == DefById(rec.hdr.id) IN
      IF d.pgn # rec.pgn \/ rec.hdr.pgn # d.pgn THEN Fail(0, "hdr.pgn")
      ELSE IF rec.hdr.desc # d.desc THEN Fail(0, "hdr.description")
      ELSE IF rec.hdr.ttl # d.ttl THEN Fail(0, "hdr.interval")
      ELSE IF Len(rec.f) # Len(d.fields) THEN Fail(0, "fields.count")
      ELSE LET idx == SelectSeq([k \in 1..Len(d.fields) |-> k],
                                LAMBDA k : FieldVerdict(d.fields[k], rec.p, rec.f[k]) # "ok")
           IN [j \in 1..Len(idx) |-> [f |-> idx[j], c |-> FieldVerdict(d.fields[idx[j]], rec.p, rec.f[idx[j]])]]
  ELSE LET sel == Select(rec.pgn, rec.p) IN
    IF sel # 0 /\ AllInRange(Defs[sel], rec.p) THEN Fail(0, "must-return") ELSE Ok

\* ---- C08 ----------------------------------------------------------------
\* rec: [pgn, p, ret, id]
C08Verdict(rec) ==
  LET sel == Select(rec.pgn, rec.p) IN
    IF sel = 0 THEN (IF rec.ret = "msg" THEN Fail(0, "select.should-not-decode") ELSE Ok)
    ELSE IF rec.ret = "msg" THEN (IF rec.id = Defs[sel].id THEN Ok ELSE Fail(sel, "select.wrong-definition"))
    ELSE IF rec.ret = "none" THEN Fail(sel, "select.not-decoded")
    ELSE Ok          \* raised: content trouble of the selected definition is C01's business

\* ---- C02 ----------------------------------------------------------------
\* rec: [id (definition the decoder named), p (decoded payload), ret ("enc"|"err"), e (re-encoded payload)]
FieldKept(f, p, e) ==
  LET a == Slice(p, f.off, f.len)
      b == Slice(e, f.off, f.len)
  IN IF f.len <= 48 \/ f.kind \notin {"num", "time", "date"} THEN a = b
     ELSE a = b \/ (Sentinel(f, a) = Sentinel(f, b) /\ ~Sentinel(f, a) /\ SMNear(Ticks(f, b), Ticks(f, a), 48))

C02Verdict(rec) ==
  LET d == DefById(rec.id) IN
    IF rec.ret = "err" THEN Fail(0, "reencode.refused")
    ELSE IF d.len > 0 /\ Len(rec.e) # d.len THEN Fail(0, "reencode.length")
    ELSE LET idx == SelectSeq([k \in 1..Len(d.fields) |-> k],
                              LAMBDA k : Positioned(d.fields[k]) /\ ~FieldKept(d.fields[k], rec.p, rec.e))
         IN [j \in 1..Len(idx) |-> [f |-> idx[j], c |-> "reencode.bits"]]

\* ---- C09 ----------------------------------------------------------------
\* rec: [id, ret ("enc"|"err"), e (payload), base (payload of the unmodified request, <<>> if none),
\*       changed (index of the field that differs from the base request, 0 if none),
\*       req (per definition field: [k, neg, mag, cls])]
\*   k = "na" absent | "num" number given by floor + class | "code" exact integer code |
\*       "bits" exact bit pattern (mag, untrimmed comparison after Trim) | "missing" field removed |
\*       "nonfinite" NaN/inf | "free" not constrained
MustRefuse(f, r) ==
  CASE r.k \in {"missing", "nonfinite"} -> TRUE
    [] r.k = "num"  -> /\ ~SomeRepresentable(f, SM(r.neg, r.mag), r.cls)
                       /\ (Len(Trim(r.mag)) > 50 => Len(Trim(r.mag)) > f.len)   \* wide fields: only clearly out of range
    [] r.k = "code" -> r.neg \/ Len(Trim(r.mag)) > f.len
    [] OTHER -> FALSE

EncFieldVerdict(f, e, r) ==
  LET code == Slice(e, f.off, f.len) IN
    CASE r.k \in {"na", "num"} -> EncNumVerdict(f, code, r)
      [] r.k = "code" -> IF Trim(code) = Trim(r.mag) THEN "ok" ELSE "encode.wrong-code"
      [] r.k = "bits" -> IF Trim(code) = Trim(r.mag) THEN "ok" ELSE "encode.wrong-bits"
      [] OTHER -> "ok"

\* all bits outside field f equal in the two payloads
\* (definitions without a fixed Length are written without trailing zero bytes: missing bytes read as 0)
Local(f, e, b) ==
  LET n == IF Len(e) > Len(b) THEN Len(e) ELSE Len(b) IN
    \A i \in 0..(8 * n - 1) : (i < f.off \/ i >= f.off + f.len) => BitAt(e, i) = BitAt(b, i)

C09Verdict(rec) ==
  LET d == DefById(rec.id)
      n == Len(d.fields)
      refuse == {k \in 1..n : MustRefuse(d.fields[k], rec.req[k])}
  IN IF rec.ret = "err" THEN Ok
     ELSE IF refuse # {} THEN
       LET k == SetMin(refuse) IN
         Fail(k, IF rec.req[k].k = "missing" THEN "encode.missing-field-accepted"
                 ELSE IF rec.req[k].k = "nonfinite" THEN "encode.nonfinite-accepted"
                 ELSE IF rec.req[k].k = "code" THEN "encode.too-wide-accepted"
                 ELSE "encode.unrepresentable-accepted")
     ELSE IF d.len > 0 /\ Len(rec.e) # d.len THEN Fail(0, "encode.length")
     ELSE LET idx == SelectSeq([k \in 1..n |-> k],
                               LAMBDA k : EncFieldVerdict(d.fields[k], rec.e, rec.req[k]) # "ok")
              loc == IF rec.changed > 0 /\ Len(rec.base) > 0 /\ ~Local(d.fields[rec.changed], rec.e, rec.base)
                     THEN Fail(rec.changed, "encode.locality") ELSE Ok
          IN [j \in 1..Len(idx) |-> [f |-> idx[j], c |-> EncFieldVerdict(d.fields[idx[j]], rec.e, rec.req[idx[j]])]] \o loc

Verdict(rec) ==
  CASE IOEnv.MODE = "C01" -> C01Verdict(rec)
    [] IOEnv.MODE = "C08" -> C08Verdict(rec)
    [] IOEnv.MODE = "C02" -> C02Verdict(rec)
    [] IOEnv.MODE = "C09" -> C09Verdict(rec)

Verdicts ==
  LET idx == SelectSeq([k \in 1..Len(Recs) |-> k], LAMBDA k : Verdict(Recs[k]) # Ok)
  IN [n |-> Len(Recs), bad |-> [j \in 1..Len(idx) |-> [k |-> idx[j], v |-> Verdict(Recs[idx[j]])]]]

VARIABLE done
Init == done = FALSE
Next == done = FALSE /\ done' = TRUE /\ JsonSerialize(IOEnv.OUT_FILE, Verdicts)
Spec == Init /\ [][Next]_done
=============================================================================
