---------------------------- MODULE Trace_Codec ----------------------------
(***************************************************************************)
(* Record validation for the codec properties.  Every record is one        *)
(* observation of the real library (harness/props/c01.py etc.); TLC judges *)
(* it against N2KCodec and writes the failing clauses.                     *)
(*   IOEnv.MODE selects the predicate; verdicts are total (no abort).      *)
(*   Modes: C01 C02 C08 C09 C11 (identity) C15 C17 C18.                    *)
(***************************************************************************)
EXTENDS N2KCodec

Recs == JsonDeserialize(IOEnv.IN_FILE)

Ok == <<>>
Fail(f, c) == <<[f |-> f, c |-> c]>>

\* ---- C01 ----------------------------------------------------------------
\* rec: [pgn, p (payload bytes), ret ("msg"|"err"|"none"), hdr [pgn,id,desc,ttl], f (observed fields)]
C01Verdict(rec) ==
  IF rec.ret = "msg" THEN
    IF ~HasId(rec.hdr.id) THEN Fail(0, "hdr.unknown-id")
    ELSE LET d == DefById(rec.hdr.id) IN
      IF d.pgn # rec.pgn \/ rec.hdr.pgn # d.pgn THEN Fail(0, "hdr.pgn")
      ELSE IF rec.hdr.desc # d.desc THEN Fail(0, "hdr.description")
      ELSE IF rec.hdr.ttl # d.ttl THEN Fail(0, "hdr.interval")
      ELSE IF Len(rec.f) # Len(d.fields) THEN Fail(0, "fields.count")
      ELSE LET offs == EffOff(d, rec.p)
               FV(k) == FieldVerdict(At(d.fields[k], offs[k]), rec.p, rec.f[k])
               idx == SelectSeq([k \in 1..Len(d.fields) |-> k], LAMBDA k : FV(k) # "ok")
           IN [j \in 1..Len(idx) |-> [f |-> idx[j], c |-> FV(idx[j])]]
  ELSE LET sel == Select(rec.pgn, rec.p) IN
    IF sel # 0 /\ AllInRange(Defs[sel], rec.p) THEN Fail(0, "must-return") ELSE Ok

\* ---- C08 ----------------------------------------------------------------
\* rec: [pgn, p, ret, id]
C08Verdict(rec) ==
  LET sel == Select(rec.pgn, rec.p) IN
    IF sel = 0 THEN (IF rec.ret = "msg" THEN Fail(0, "select.should-not-decode") ELSE Ok)
    ELSE IF rec.ret = "msg" THEN (IF rec.id = Defs[sel].id THEN Ok ELSE Fail(sel, "select.wrong-definition"))
    ELSE IF rec.ret = "none" THEN Fail(sel, "select.not-decoded")
    ELSE Ok          \* raised: content trouble of the selected definition is C01's business

\* ---- C02 ----------------------------------------------------------------
\* rec: [id (definition the decoder named), p (decoded payload), ret ("enc"|"err"), e (re-encoded payload)]
FieldKept(f, p, e) ==
  LET a == Slice(p, f.off, f.len)
      b == Slice(e, f.off, f.len)
  IN IF f.len <= 48 \/ f.kind \notin {"num", "time", "date"} THEN a = b
     ELSE a = b \/ (Sentinel(f, a) = Sentinel(f, b) /\ ~Sentinel(f, a) /\ SMNear(Ticks(f, b), Ticks(f, a), 48))

C02Verdict(rec) ==
  LET d == DefById(rec.id) IN
    IF rec.ret = "err" THEN Fail(0, "reencode.refused")
    ELSE IF d.len > 0 /\ Len(rec.e) # d.len THEN Fail(0, "reencode.length")
    ELSE LET idx == SelectSeq([k \in 1..Len(d.fields) |-> k],
                              LAMBDA k : Positioned(d.fields[k]) /\ ~FieldKept(d.fields[k], rec.p, rec.e))
         IN [j \in 1..Len(idx) |-> [f |-> idx[j], c |-> "reencode.bits"]]

\* ---- C09 ----------------------------------------------------------------
\* rec: [id, ret ("enc"|"err"), e (payload), base (payload of the unmodified request, <<>> if none),
\*       changed (index of the field that differs from the base request, 0 if none),
\*       req (per definition field: [k, neg, mag, cls])]
\*   k = "na" absent | "num" number given by floor + class | "code" exact integer code |
\*       "bits" exact bit pattern (mag, untrimmed comparison after Trim) | "missing" field removed |
\*       "nonfinite" NaN/inf | "free" not constrained
MustRefuse(f, r) ==
  CASE r.k \in {"missing", "nonfinite"} -> TRUE
    [] r.k = "num"  -> /\ ~SomeRepresentable(f, SM(r.neg, r.mag), r.cls)
                       /\ (Len(Trim(r.mag)) > 50 => Len(Trim(r.mag)) > f.len)   \* wide fields: only clearly out of range
    [] r.k = "code" -> r.neg \/ Len(Trim(r.mag)) > f.len
    [] r.k = "name" -> \A key \in DOMAIN Lookups[f.lookup] : Lookups[f.lookup][key] # r.s     \* no such name in the table
    [] OTHER -> FALSE

EncFieldVerdict(f, e, r) ==
  LET code == Slice(e, f.off, f.len) IN
    CASE r.k \in {"na", "num"} -> EncNumVerdict(f, code, r)
      [] r.k = "code" -> IF Trim(code) = Trim(r.mag) THEN "ok" ELSE "encode.wrong-code"
      [] r.k = "bits" -> IF Trim(code) = Trim(r.mag) THEN "ok" ELSE "encode.wrong-bits"
      \* a lookup requested by name: the code written must be one the table maps to that name
      [] r.k = "name" -> LET key == IF Fits30(code) THEN ToString(ToNat(code)) ELSE "?" IN
                           IF key \in DOMAIN Lookups[f.lookup] /\ Lookups[f.lookup][key] = r.s THEN "ok"
                           ELSE "encode.wrong-lookup-code"
      [] OTHER -> "ok"

\* all bits outside field f equal in the two payloads
\* (definitions without a fixed Length are written without trailing zero bytes: missing bytes read as 0)
Local(f, e, b) ==
  LET n == IF Len(e) > Len(b) THEN Len(e) ELSE Len(b) IN
    \A i \in 0..(8 * n - 1) : (i < f.off \/ i >= f.off + f.len) => BitAt(e, i) = BitAt(b, i)

C09Verdict(rec) ==
  LET d == DefById(rec.id)
      n == Len(d.fields)
      refuse == {k \in 1..n : MustRefuse(d.fields[k], rec.req[k])}
  IN IF rec.ret = "err" THEN Ok
     ELSE IF refuse # {} THEN
       LET k == SetMin(refuse) IN
         Fail(k, IF rec.req[k].k = "missing" THEN "encode.missing-field-accepted"
                 ELSE IF rec.req[k].k = "nonfinite" THEN "encode.nonfinite-accepted"
                 ELSE IF rec.req[k].k = "code" THEN "encode.too-wide-accepted"
                 ELSE IF rec.req[k].k = "name" THEN "encode.unknown-lookup-name-accepted"
                 ELSE "encode.unrepresentable-accepted")
     ELSE IF d.len > 0 /\ Len(rec.e) # d.len THEN Fail(0, "encode.length")
     ELSE LET idx == SelectSeq([k \in 1..n |-> k],
                               LAMBDA k : EncFieldVerdict(d.fields[k], rec.e, rec.req[k]) # "ok")
              loc == IF rec.changed > 0 /\ Len(rec.base) > 0 /\ ~Local(d.fields[rec.changed], rec.e, rec.base)
                     THEN Fail(rec.changed, "encode.locality") ELSE Ok
          IN [j \in 1..Len(idx) |-> [f |-> idx[j], c |-> EncFieldVerdict(d.fields[idx[j]], rec.e, rec.req[idx[j]])]] \o loc

\* ---- C17 ----------------------------------------------------------------
\* rec (a group of observations of one definition): [id, obs], obs[i] = [p (payload), hash ("" = none), id, netmap]
\* Key: the code bits of the fields the database marks as part of the primary key (positioned fields)
\* (a text key - STRING_LAU at a fixed position - counts with its encoding byte and its text bytes, blanks included)
TextKey(f) == f.kind = "strlau" /\ f.off >= 0
KeyBits(d, p) == [k \in {j \in 1..Len(d.fields) : d.fields[j].pk /\ (Positioned(d.fields[j]) \/ TextKey(d.fields[j]))} |->
                    IF TextKey(d.fields[k]) THEN <<ByteAtBit(p, d.fields[k].off + 8)>> \o LauBytes(p, d.fields[k].off)
                    ELSE Code(d.fields[k], p)]
C17Verdict(rec) ==
  LET d == DefById(rec.id)
      n == Len(rec.obs)
      on == {i \in 1..n : rec.obs[i].netmap}
  IN IF \E i \in 1..n : ~rec.obs[i].netmap /\ rec.obs[i].hash # "" THEN Fail(0, "hash.set-without-network-map")
     ELSE IF \E i \in on : rec.obs[i].hash = "" THEN Fail(0, "hash.missing-with-network-map")
     ELSE IF \E i, j \in on : rec.obs[i].id = rec.obs[j].id /\ KeyBits(d, rec.obs[i].p) = KeyBits(d, rec.obs[j].p)
                                 /\ rec.obs[i].hash # rec.obs[j].hash
          THEN Fail(0, "hash.differs-for-equal-key")
     ELSE IF \E i, j \in on : rec.obs[i].id = rec.obs[j].id /\ KeyBits(d, rec.obs[i].p) # KeyBits(d, rec.obs[j].p)
                                 /\ rec.obs[i].hash = rec.obs[j].hash
          THEN Fail(0, "hash.equal-for-different-key")
     ELSE IF \E i, j \in on : rec.obs[i].id # rec.obs[j].id /\ rec.obs[i].hash = rec.obs[j].hash
          THEN Fail(0, "hash.equal-for-different-definition")
     ELSE Ok

\* ---- C18 ----------------------------------------------------------------
\* rec: [prefs (quantity -> lower-case unit text, "" = no preference), plain, pref (observed fields without / with
\*       preferences: [id, name, unit, qty, type, pk, r, v, num (harness: the converted number satisfies the exported
\*       affine map and grid, evaluated in exact rational arithmetic)]), hdrSame]
\* The conversions the library knows, as exact affine maps value' = a * value + b rounded to a grid:
\*   [quantity, unit text, label, aNum, aDen, bNum, bDen, gridNum, gridDen]   (grid 0 = no rounding)
\* pi is given by a rational enclosure in the exported table (the harness checks against both ends).
Conversions ==
  << [qty |-> "TEMPERATURE", want |-> "c",   label |-> "C",   aNum |-> 1, aDen |-> 1, bNum |-> -27315, bDen |-> 100, gNum |-> 1, gDen |-> 100],
     [qty |-> "TEMPERATURE", want |-> "f",   label |-> "F",   aNum |-> 9, aDen |-> 5, bNum |-> -45967, bDen |-> 100, gNum |-> 1, gDen |-> 1],
     [qty |-> "PRESSURE",    want |-> "bar", label |-> "Bar", aNum |-> 1, aDen |-> 100000, bNum |-> 0, bDen |-> 1, gNum |-> 0, gDen |-> 1],
     [qty |-> "PRESSURE",    want |-> "psi", label |-> "PSI", aNum |-> 100, aDen |-> 689476, bNum |-> 0, bDen |-> 1, gNum |-> 0, gDen |-> 1],
     [qty |-> "ANGLE",       want |-> "deg", label |-> "Deg", aNum |-> 180, aDen |-> 0, bNum |-> 0, bDen |-> 1, gNum |-> 1, gDen |-> 1],
     [qty |-> "SPEED",       want |-> "kts", label |-> "kts", aNum |-> 3600, aDen |-> 1852, bNum |-> 0, bDen |-> 1, gNum |-> 1, gDen |-> 10] >>
\* (aDen = 0 marks "divide by pi")
ConvFor(qty, want) == SelectSeq(Conversions, LAMBDA c : c.qty = qty /\ c.want = want)
WantOf(prefs, qty) == IF qty \in DOMAIN prefs THEN prefs[qty] ELSE ""

C18Field(prefs, a, b) ==
  LET cv == ConvFor(a.qty, WantOf(prefs, a.qty)) IN
    IF a.id # b.id \/ a.name # b.name \/ a.qty # b.qty \/ a.type # b.type \/ a.pk # b.pk THEN "attribute-changed"
    ELSE IF a.r # b.r THEN "raw-value-changed"
    ELSE IF cv = <<>> THEN (IF a.unit # b.unit THEN "unit-changed-without-conversion"
                           ELSE IF a.v # b.v THEN "value-changed-without-conversion" ELSE "ok")
    ELSE IF b.unit # cv[1].label THEN "unit-label"
    ELSE IF a.v.k = "none" THEN (IF b.v.k = "none" THEN "ok" ELSE "absent-value-became-a-number")
    ELSE IF b.v.k = "none" THEN "value-lost"
    ELSE IF ~b.num THEN "converted-value-wrong"
    ELSE "ok"

C18Verdict(rec) ==
  IF ~rec.hdrSame THEN Fail(0, "header-changed")
  ELSE IF Len(rec.plain) # Len(rec.pref) THEN Fail(0, "fields.count")
  ELSE LET idx == SelectSeq([k \in 1..Len(rec.plain) |-> k], LAMBDA k : C18Field(rec.prefs, rec.plain[k], rec.pref[k]) # "ok")
       IN [j \in 1..Len(idx) |-> [f |-> idx[j], c |-> C18Field(rec.prefs, rec.plain[idx[j]], rec.pref[idx[j]])]]

\* ---- C15 ----------------------------------------------------------------
\* message record: [parses (the JSON text is valid JSON for an independent parser), hdrSame (PGN, id, addressing of the
\*   parsed object equal the message's), f (per field [id, jid, v, jv, r, jr]: canonical texts of the message's value /
\*   raw value under the rendering rules and of the parsed object's), back ("same" | "differs" | "na": from_json of the
\*   text re-encodes to the same bytes), finite]
C15Verdict(rec) ==
  IF rec.kind = "msg" THEN
    IF ~rec.parses THEN Fail(0, "json.not-valid")
    ELSE IF ~rec.hdrSame THEN Fail(0, "json.header")
    ELSE IF \E k \in 1..Len(rec.f) : rec.f[k].id # rec.f[k].jid THEN Fail(0, "json.field-id")
    ELSE IF \E k \in 1..Len(rec.f) : rec.f[k].v # rec.f[k].jv THEN
         Fail(CHOOSE k \in 1..Len(rec.f) : rec.f[k].v # rec.f[k].jv, "json.value")
    ELSE IF \E k \in 1..Len(rec.f) : rec.f[k].r # rec.f[k].jr THEN
         Fail(CHOOSE k \in 1..Len(rec.f) : rec.f[k].r # rec.f[k].jr, "json.raw-value")
    ELSE IF rec.back = "differs" THEN Fail(0, "json.reencode-differs")
    ELSE IF rec.back = "error" THEN Fail(0, "json.from_json-failed")
    ELSE Ok
  ELSE
    \* dump record: [filter (nums, ids as spelled), out (returned messages in order: [pgn, id, json]), lines (dump file)]
    LET match(m) == (Len(rec.nums) + Len(rec.ids) = 0)
                     \/ (\E k \in 1..Len(rec.nums) : rec.nums[k] = m.pgn) \/ (\E k \in 1..Len(rec.ids) : rec.ids[k] = m.id)
        want == SelectSeq(rec.out, match)
    IN IF Len(rec.lines) < Len(want) THEN Fail(0, "dump.line-missing")
       ELSE IF Len(rec.lines) > Len(want) THEN Fail(0, "dump.extra-line")
       ELSE IF \E k \in 1..Len(want) : rec.lines[k] # want[k].json THEN Fail(0, "dump.line-differs-from-json")
       ELSE Ok

\* ---- C11 (identity) ------------------------------------------------------
\* rec: a C01 record of an ISO address claim (pgn, p, ret, hdr, f) plus ids: the identities the decoder attached
\*      to the claim message itself and to later messages of the claiming source,
\*      identity = [some, unique, inst (numbers), mfr, func, cls (observed values [k, s, ...]), name (8 bytes)]
\* The device identity is a function of the claim's decoded fields (which C01Verdict ties to the payload bits):
\*   unique number = field uniqueNumber; manufacturer / function / class = the texts of
\*   manufacturerCode / deviceFunction / deviceClass (none for codes the tables do not know);
\*   instance = 8 * deviceInstanceUpper + deviceInstanceLower; NAME = the 64 payload bits.
FieldById(rec, id) == rec.f[CHOOSE k \in 1..Len(rec.f) : rec.f[k].id = id]
HasField(rec, id) == \E k \in 1..Len(rec.f) : rec.f[k].id = id
NatOr0(ov) == IF ov.k = "num" /\ ~ov.neg /\ Fits30(ov.mag) THEN ToNat(ov.mag) ELSE 0
\* (what the identity says for a number the claim reports as not available is left open by the property)
Given(rec, id) == FieldById(rec, id).v.k = "num"
TextSame(ov, iv) == IF ov.k = "str" THEN iv.k = "str" /\ iv.s = ov.s ELSE iv.k = "none"
IdentFieldIds == {"uniqueNumber", "manufacturerCode", "deviceInstanceLower", "deviceInstanceUpper", "deviceFunction", "deviceClass"}
IdentClause(rec, id) ==
  IF ~id.some THEN "identity.missing"
  ELSE IF Given(rec, "uniqueNumber") /\ id.unique # NatOr0(FieldById(rec, "uniqueNumber").v) THEN "identity.unique-number"
  ELSE IF ~TextSame(FieldById(rec, "manufacturerCode").v, id.mfr) THEN "identity.manufacturer"
  ELSE IF Given(rec, "deviceInstanceUpper") /\ Given(rec, "deviceInstanceLower")
          /\ id.inst # 8 * NatOr0(FieldById(rec, "deviceInstanceUpper").v) + NatOr0(FieldById(rec, "deviceInstanceLower").v)
       THEN "identity.instance"
  ELSE IF ~TextSame(FieldById(rec, "deviceFunction").v, id.func) THEN "identity.function"
  ELSE IF ~TextSame(FieldById(rec, "deviceClass").v, id.cls) THEN "identity.class"
  ELSE IF id.name # rec.p THEN "identity.name"
  ELSE "ok"
C11Verdict(rec) ==
  IF rec.ret # "msg" THEN Fail(0, "identity.claim-not-decoded")
  ELSE IF C01Verdict(rec) # Ok THEN C01Verdict(rec)
  ELSE IF \E i \in IdentFieldIds : ~HasField(rec, i) THEN Fail(0, "identity.claim-field-missing")
  ELSE LET idx == SelectSeq([k \in 1..Len(rec.ids) |-> k], LAMBDA k : IdentClause(rec, rec.ids[k]) # "ok")
       IN [j \in 1..Len(idx) |-> [f |-> idx[j], c |-> IdentClause(rec, rec.ids[idx[j]])]]

Verdict(rec) ==
  CASE IOEnv.MODE = "C01" -> C01Verdict(rec)
    [] IOEnv.MODE = "C11" -> C11Verdict(rec)
    [] IOEnv.MODE = "C08" -> C08Verdict(rec)
    [] IOEnv.MODE = "C02" -> C02Verdict(rec)
    [] IOEnv.MODE = "C09" -> C09Verdict(rec)
    [] IOEnv.MODE = "C17" -> C17Verdict(rec)
    [] IOEnv.MODE = "C18" -> C18Verdict(rec)
    [] IOEnv.MODE = "C15" -> C15Verdict(rec)

Verdicts ==
  LET idx == SelectSeq([k \in 1..Len(Recs) |-> k], LAMBDA k : Verdict(Recs[k]) # Ok)
  IN [n |-> Len(Recs), bad |-> [j \in 1..Len(idx) |-> [k |-> idx[j], v |-> Verdict(Recs[idx[j]])]]]

VARIABLE done
Init == done = FALSE
Next == /\ done = FALSE /\ done' = TRUE /\ JsonSerialize(IOEnv.OUT_FILE, Verdicts)
        /\ (IOEnv.MODE = "C18" => JsonSerialize(IOEnv.OUT_FILE \o ".conversions", Conversions))
Spec == Init /\ [][Next]_done
=============================================================================
