---------------------------- MODULE Trace_Codec ----------------------------
(***************************************************************************)
(* Record validation for the codec properties.  Every record is one        *)
(* observation of the real library (harness/props/c01.py etc.); TLC judges *)
(* it against N2KCodec and writes the failing clauses.                     *)
(*   IOEnv.MODE selects the predicate; verdicts are total (no abort).      *)
(***************************************************************************)
EXTENDS N2KCodec

Recs == JsonDeserialize(IOEnv.IN_FILE)

Ok == <<>>
Fail(f, c) == <<[f |-> f, c |-> c]>>

\* ---- C01 ----------------------------------------------------------------
\* rec: [pgn, p (payload bytes), ret ("msg"|"err"|"none"), hdr [pgn,id,desc,ttl], f (observed fields)]
C01Verdict(rec) ==
  IF rec.ret = "msg" THEN
    IF ~HasId(rec.hdr.id) THEN Fail(0, "hdr.unknown-id")
    ELSE LET d == DefById(rec.hdr.id) IN
      IF d.pgn # rec.pgn \/ rec.hdr.pgn # d.pgn THEN Fail(0, "hdr.pgn")
      ELSE IF rec.hdr.desc # d.desc THEN Fail(0, "hdr.description")
      ELSE IF rec.hdr.ttl # d.ttl THEN Fail(0, "hdr.interval")
      ELSE IF Len(rec.f) # Len(d.fields) THEN Fail(0, "fields.count")
      ELSE LET idx == SelectSeq([k \in 1..Len(d.fields) |-> k],
                                LAMBDA k : FieldVerdict(d.fields[k], rec.p, rec.f[k]) # "ok")
           IN [j \in 1..Len(idx) |-> [f |-> idx[j], c |-> FieldVerdict(d.fields[idx[j]], rec.p, rec.f[idx[j]])]]
  ELSE LET sel == Select(rec.pgn, rec.p) IN
    IF sel # 0 /\ AllInRange(Defs[sel], rec.p) THEN Fail(0, "must-return") ELSE Ok

\* ---- C08 ----------------------------------------------------------------
\* rec: [pgn, p, ret, id]
C08Verdict(rec) ==
  LET sel == Select(rec.pgn, rec.p) IN
    IF sel = 0 THEN (IF rec.ret = "msg" THEN Fail(0, "select.should-not-decode") ELSE Ok)
    ELSE IF rec.ret = "msg" THEN (IF rec.id = Defs[sel].id THEN Ok ELSE Fail(sel, "select.wrong-definition"))
    ELSE IF rec.ret = "none" THEN Fail(sel, "select.not-decoded")
    ELSE Ok          \* raised: content trouble of the selected definition is C01's business

\* ---- C02 ----------------------------------------------------------------
\* rec: [id (definition the decoder named), p (decoded payload), ret ("enc"|"err"), e (re-encoded payload)]
FieldKept(f, p, e) ==
  LET a == Slice(p, f.off, f.len)
      b == Slice(e, f.off, f.len)
  IN IF f.len <= 48 \/ f.kind \notin {"num", "time", "date"} THEN a = b
     ELSE a = b \/ (Sentinel(f, a) = Sentinel(f, b) /\ ~Sentinel(f, a) /\ SMNear(Ticks(f, b), Ticks(f, a), 48))

C02Verdict(rec) ==
  LET d == DefById(rec.id) IN
    IF rec.ret = "err" THEN Fail(0, "reencode.refused")
    ELSE IF d.len > 0 /\ Len(rec.e) # d.len THEN Fail(0, "reencode.length")
    ELSE LET idx == SelectSeq([k \in 1..Len(d.fields) |-> k],
                              LAMBDA k : Positioned(d.fields[k]) /\ ~FieldKept(d.fields[k], rec.p, rec.e))
         IN [j \in 1..Len(idx) |-> [f |-> idx[j], c |-> "reencode.bits"]]

Verdict(rec) ==
  CASE IOEnv.MODE = "C01" -> C01Verdict(rec)
    [] IOEnv.MODE = "C08" -> C08Verdict(rec)
    [] IOEnv.MODE = "C02" -> C02Verdict(rec)

Verdicts ==
  LET idx == SelectSeq([k \in 1..Len(Recs) |-> k], LAMBDA k : Verdict(Recs[k]) # Ok)
  IN [n |-> Len(Recs), bad |-> [j \in 1..Len(idx) |-> [k |-> idx[j], v |-> Verdict(Recs[idx[j]])]]]

VARIABLE done
Init == done = FALSE
Next == done = FALSE /\ done' = TRUE /\ JsonSerialize(IOEnv.OUT_FILE, Verdicts)
Spec == Init /\ [][Next]_done
=============================================================================
