---------------------------- MODULE N2KClientMon ----------------------------
(***************************************************************************)
(* The properties C13 and C14 as a monitor over the events observable at   *)
(* the boundary of a gateway client (user calls, the simulated gateway,    *)
(* the status / receive callbacks).  The monitor state is a function of    *)
(* the events seen so far; the first violated clause is latched in `viol`. *)
(* It is used twice: composed with the model (MC_Client: no behaviour of   *)
(* the model may trip it) and run over event logs recorded from the real   *)
(* clients (Trace_Client).                                                 *)
(*                                                                         *)
(* event = [e, st, t, k, s, conn, r]  (unused fields 0 / "")               *)
(*   CallConnect RetConnect CallClose RetClose                             *)
(*   Open(k) OpenResult(k, r = "accept"|"refuse")                          *)
(*   Status(s)  ReadStart(conn) ReadEnd(conn) ReadCancelled(conn)          *)
(*   Fault(conn)   the gateway ended / reset connection conn               *)
(*   WriteError(conn)  a write or drain on conn failed                     *)
(*   Deliver  WriterClose(conn)  Spin                                      *)
(*   End(k = client tasks still pending, r = "settled" if the gateway had  *)
(*       been accepting long enough for every back-off to expire,          *)
(*       s = "probe-lost" if a frame fed after recovery was not delivered) *)
(* st = client.state sampled when the event was recorded, t = time in ms.  *)
(***************************************************************************)
EXTENDS Integers, Sequences, FiniteSets

CapMs == 10000          \* the largest pause between two attempts
SlackMs == 50

MonInit ==
  [viol |-> "", closeCalled |-> FALSE, closeRet |-> FALSE, lastNote |-> "none",
   cur |-> 0,               \* latest accepted connection
   curReported |-> FALSE,   \* CONNECTED was notified since it was accepted
   reading |-> 0,           \* connection with an outstanding read (0 = none)
   faulted |-> FALSE,       \* the current connection failed and DISCONNECTED was not reported yet
   lastRefuseT |-> -1,      \* time of the refusal that ended the previous attempt (-1: none pending)
   prevDelay |-> 0,         \* pause before the previous retry of this run
   curAtClose |-> 0,        \* the link that existed when close() was called
   dead |-> {},             \* connections the gateway ended or on which a write failed
   openedLate |-> {},       \* connections accepted after close() was called
   shut |-> {},             \* connections whose writer the client closed
   last |-> <<>>,           \* (model only) the events of the last step
   focus |-> ""]            \* "" | "C13" | "C14": whose clauses are recorded

\* the clauses of C14; all others belong to C13.  A monitor with a focus records only violations of that property, so
\* that a breach of the one never hides a breach of the other in the same log (focus "" = both, as in the model)
C14Clauses == {"C14.delivery-after-close-returned", "C14.late-connection-left-open", "C14.left-CLOSED", "C14.link-not-shut-when-close-returned", "C14.notification-does-not-match-state", "C14.notified-after-close", "C14.open-after-close", "C14.same-state-notified-twice", "C14.state-changed-without-notification", "C14.tasks-still-pending"}
PropOf(c) == IF c \in C14Clauses THEN "C14" ELSE "C13"
Fail(m, c) == IF m.viol = "" /\ (m.focus = "" \/ m.focus = PropOf(c)) THEN [m EXCEPT !.viol = c] ELSE m

MonStep(m, ev) ==
  LET m1 ==   \* clauses that hold for every event
        IF m.closeCalled /\ ev.e \notin {"CallClose"} /\ ev.st # "CLOSED" /\ ev.st # ""
        THEN Fail(m, "C14.left-CLOSED")
        \* one notification per state change: between two notifications the state is the one notified last
        \* (DISCONNECTED before the first); the notification itself is judged below
        ELSE IF ev.e # "Status" /\ ev.st # "" /\ ev.st # (IF m.lastNote = "none" THEN "DISCONNECTED" ELSE m.lastNote)
        THEN Fail(m, "C14.state-changed-without-notification")
        ELSE m
  IN
  CASE ev.e = "CallClose" -> IF m1.closeCalled THEN m1 ELSE [m1 EXCEPT !.closeCalled = TRUE, !.curAtClose = m1.cur]
    [] ev.e = "RetClose"  ->
         LET m2 == [m1 EXCEPT !.closeRet = TRUE] IN
           IF m1.curAtClose # 0 /\ m1.curAtClose \notin m1.shut /\ m1.curAtClose \notin m1.dead
           THEN Fail(m2, "C14.link-not-shut-when-close-returned") ELSE m2
    [] ev.e = "Open" ->
         LET m2 == IF m1.closeCalled THEN Fail(m1, "C14.open-after-close") ELSE m1
             \* (a link that fails before it was ever reported CONNECTED - the serial client's configuration write inside
             \*  the connect attempt - leaves the user's view at DISCONNECTED: there is no change to report)
             m3 == IF m2.faulted /\ m2.lastNote = "CONNECTED" THEN Fail(m2, "C13.reconnect-without-reporting-DISCONNECTED") ELSE m2
             d  == ev.t - m3.lastRefuseT
         IN IF m3.lastRefuseT < 0 THEN m3
            ELSE IF d <= 0 THEN Fail(m3, "C13.retry-without-delay")
            ELSE IF d > CapMs + SlackMs THEN Fail(m3, "C13.retry-delay-above-cap")
            ELSE IF d + SlackMs < m3.prevDelay THEN Fail(m3, "C13.retry-delay-shrinks")
            \* "growing": below the cap every pause is longer than the one before it
            ELSE IF m3.prevDelay > 0 /\ d < CapMs - SlackMs /\ d <= m3.prevDelay + SlackMs
                 THEN Fail(m3, "C13.retry-delay-does-not-grow")
            ELSE [m3 EXCEPT !.prevDelay = d, !.lastRefuseT = -1]
    [] ev.e = "OpenResult" ->
         IF ev.r = "refuse" THEN [m1 EXCEPT !.lastRefuseT = ev.t]
         \* (the run of failed attempts ends when the link is reported CONNECTED, not here: the serial client's attempt may
         \*  still fail on its configuration write)
         ELSE LET m2 == [m1 EXCEPT !.cur = ev.k, !.curReported = FALSE, !.lastRefuseT = -1, !.faulted = FALSE] IN
                IF m1.closeCalled THEN [m2 EXCEPT !.openedLate = @ \cup {ev.k}] ELSE m2
    [] ev.e = "Status" ->
         LET m2 == IF ev.s = m1.lastNote THEN Fail(m1, "C14.same-state-notified-twice") ELSE m1
             m3 == IF m2.closeCalled /\ ev.s # "CLOSED" THEN Fail(m2, "C14.notified-after-close") ELSE m2
             m4 == IF ev.s # ev.st THEN Fail(m3, "C14.notification-does-not-match-state") ELSE m3
             m5 == IF ev.s = "CONNECTED" /\ m4.cur = 0 THEN Fail(m4, "C13.CONNECTED-without-connection") ELSE m4
             m6 == IF ev.s = "CONNECTED" THEN [m5 EXCEPT !.curReported = TRUE, !.prevDelay = 0, !.lastRefuseT = -1] ELSE m5
         IN [m6 EXCEPT !.lastNote = ev.s, !.faulted = IF ev.s = "DISCONNECTED" THEN FALSE ELSE @]
    [] ev.e = "ReadStart" ->
         LET m2 == IF ev.conn # m1.cur THEN Fail(m1, "C13.read-on-stale-connection") ELSE m1
             m3 == IF m2.reading # 0 /\ m2.reading # ev.conn THEN Fail(m2, "C13.two-receive-paths") ELSE m2
         IN [m3 EXCEPT !.reading = ev.conn]
    [] ev.e \in {"ReadEnd", "ReadCancelled"} ->
         IF m1.reading = ev.conn THEN [m1 EXCEPT !.reading = 0] ELSE m1
    [] ev.e \in {"Fault", "WriteError"} ->
         \* (a fault on a link already reported as lost needs no second report)
         \* a write failing on the accepted link before it was ever reported CONNECTED: if another attempt follows without
         \* the report in between, this attempt failed (the serial client's configuration write) and the pause before the
         \* next one is judged like the pause after a refusal
         LET m2 == [m1 EXCEPT !.dead = @ \cup {ev.conn},
                              !.lastRefuseT = IF ev.e = "WriteError" /\ ev.conn = m1.cur /\ ~m1.curReported /\ ~m1.closeCalled
                                              THEN ev.t ELSE @] IN
         IF ev.conn = m1.cur /\ ~m1.closeCalled /\ m1.lastNote # "DISCONNECTED"
         THEN [m2 EXCEPT !.faulted = TRUE] ELSE m2
    [] ev.e = "Deliver" ->
         IF m1.closeRet THEN Fail(m1, "C14.delivery-after-close-returned") ELSE m1
    [] ev.e = "WriterClose" -> [m1 EXCEPT !.shut = @ \cup {ev.conn}]
    [] ev.e = "Spin" -> Fail(m1, "C13.event-loop-monopolised")
    [] ev.e = "End" ->
         LET a == IF m1.closeCalled /\ m1.closeRet /\ ev.k # 0 THEN Fail(m1, "C14.tasks-still-pending") ELSE m1
             b == IF m1.closeCalled /\ (m1.openedLate \ m1.shut) # {} THEN Fail(a, "C14.late-connection-left-open") ELSE a
             c == IF ~m1.closeCalled /\ ev.r = "settled" /\ ev.st # "CONNECTED" THEN Fail(b, "C13.not-reconnected") ELSE b
             d == IF ~m1.closeCalled /\ ev.r = "settled" /\ m1.reading # m1.cur THEN Fail(c, "C13.no-receive-path-after-recovery") ELSE c
             f == IF ~m1.closeCalled /\ ev.s = "probe-lost" THEN Fail(d, "C13.frame-after-recovery-not-delivered") ELSE d
             g == IF ev.s = "starved" THEN Fail(f, "C13.other-tasks-starved") ELSE f
         IN g
    [] OTHER -> m1

RECURSIVE MonRun(_, _, _)
MonRun(m, evs, k) == IF k > Len(evs) THEN m ELSE MonRun(MonStep(m, evs[k]), evs, k + 1)
=============================================================================
