---------------------------- MODULE Trace_CanId ----------------------------
(* B3 for C05: observations recorded from the real code, judged by the     *)
(* specification's Parse/Build.                                             *)
(*   parse rows: <<id, pgn, src, dst, prio>>  what the code parsed id into  *)
(*   build rows: <<pgn, src, dst, prio, id>>  what the code built           *)
(*   wire rows:  <<pgn, src, dst, prio, id, pgn2, src2, dst2, prio2>>       *)
(*        request -> identifier bytes found inside the encoder's packet ->  *)
(*        addressing reported by the matching decoder for that packet       *)
EXTENDS N2KCanId, Sequences, Json, IOUtils, TLC

In == JsonDeserialize(IOEnv.IN_FILE)

ParseVerdict(r) ==
  LET p == Parse(r[1]) IN
    IF r[2] # p.pgn THEN "parse.pgn"
    ELSE IF r[3] # p.src THEN "parse.src"
    ELSE IF r[4] # p.dst THEN "parse.dst"
    ELSE IF r[5] # p.prio THEN "parse.prio"
    ELSE "ok"

BuildVerdict(r) ==
  IF r[5] # Build(r[1], r[2], r[3], r[4]) THEN "build.id" ELSE "ok"

WireVerdict(r) ==
  IF r[5] # Build(r[1], r[2], r[3], r[4]) THEN "wire.id"
  ELSE IF <<r[6], r[7], r[8], r[9]>> # <<EffPgn(r[1]), r[2], EffDst(r[1], r[3]), r[4]>> THEN "wire.roundtrip"
  ELSE "ok"

Bad(rows, V(_), tag) ==
  LET idx == SelectSeq([k \in 1..Len(rows) |-> k], LAMBDA k : V(rows[k]) # "ok")
  IN [k \in 1..Len(idx) |-> [kind |-> tag, k |-> idx[k], c |-> V(rows[idx[k]])]]

Verdicts == [n |-> Len(In.parse) + Len(In.build) + Len(In.wire),
             bad |-> Bad(In.parse, ParseVerdict, "parse") \o Bad(In.build, BuildVerdict, "build")
                     \o Bad(In.wire, WireVerdict, "wire")]

VARIABLE done
Init == done = FALSE
Next == done = FALSE /\ done' = TRUE /\ JsonSerialize(IOEnv.OUT_FILE, Verdicts)
Spec == Init /\ [][Next]_done
=============================================================================
