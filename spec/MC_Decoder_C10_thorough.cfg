SPECIFICATION Spec
CONSTANTS
  MaxLen = 4
  Srcs = {1, 2}
  CfgSet <- C10Cfgs
  FLen = 8
  PgnLists <- QuickLists
INVARIANT Selection
INVARIANT MapAgree
INVARIANT LatestClaim
INVARIANT NoLeak
INVARIANT Discovery
INVARIANT Isolation
INVARIANT Returned
INVARIANT BadInputsHarmless
INVARIANT NoCrossTalk
INVARIANT FreshMessageReturned
CHECK_DEADLOCK FALSE
