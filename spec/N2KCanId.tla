---------------------------- MODULE N2KCanId ----------------------------
(***************************************************************************)
(* The 29-bit CAN identifier of NMEA 2000 / ISO 11783-3.                   *)
(*                                                                         *)
(*    28..26 priority | 25..8 "PGN field" = R DP PF PS | 7..0 source       *)
(*                                                                         *)
(* PDU1 (PF < 240): PS is the destination address, the PGN has PS = 0.     *)
(* PDU2 (PF >= 240): broadcast, PS is part of the PGN, destination = 255.  *)
(*                                                                         *)
(* Code: decoder.py:_extract_header, encoder.py:_build_header, and the     *)
(* identifier bytes inside every frame-level wire format.                  *)
(***************************************************************************)
EXTENDS Naturals

TwoTo8  == 256
TwoTo16 == 65536
TwoTo18 == 262144
TwoTo26 == 67108864
TwoTo29 == 536870912

Src(id)   == id % TwoTo8
PField(id) == (id \div TwoTo8) % TwoTo18
Prio(id)  == (id \div TwoTo26) % 8

PF(f) == (f \div TwoTo8) % TwoTo8
PS(f) == f % TwoTo8
DP(f) == (f \div TwoTo16) % 4            \* reserved bit + data page

IsPDU1(f) == PF(f) < 240

PgnOf(f) == IF IsPDU1(f) THEN f - PS(f) ELSE f
DstOf(f) == IF IsPDU1(f) THEN PS(f) ELSE 255

Parse(id) == [pgn  |-> PgnOf(PField(id)),
              src  |-> Src(id),
              dst  |-> DstOf(PField(id)),
              prio |-> Prio(id)]

\* A PGN in canonical form: 18 bits, and PS = 0 when it is a PDU1 PGN.
Canonical(pgn) == pgn < TwoTo18 /\ (IsPDU1(pgn) => PS(pgn) = 0)

\* Build is total on 18-bit pgn: a PDU1 pgn's low byte is replaced by the
\* destination, a PDU2 pgn ignores the destination (non-canonical requests).
BuildField(pgn, dst) == IF IsPDU1(pgn) THEN (pgn - PS(pgn)) + dst ELSE pgn
Build(pgn, src, dst, prio) == prio * TwoTo26 + BuildField(pgn, dst) * TwoTo8 + src

EffDst(pgn, dst) == IF IsPDU1(pgn) THEN dst ELSE 255
EffPgn(pgn)      == IF IsPDU1(pgn) THEN pgn - PS(pgn) ELSE pgn

----------------------------------------------------------------------------
(* The property C05, as predicates on one identifier / one request.        *)

IdRoundTrip(id) ==
    LET p == Parse(id) IN
      /\ p.src \in 0..255 /\ p.dst \in 0..255 /\ p.prio \in 0..7
      /\ p.pgn \in 0..(TwoTo18 - 1)
      /\ Canonical(p.pgn)
      /\ Build(p.pgn, p.src, p.dst, p.prio) = id

TupleRoundTrip(pgn, src, dst, prio) ==
    LET id == Build(pgn, src, dst, prio) IN
      /\ id < TwoTo29
      /\ Parse(id) = [pgn |-> EffPgn(pgn), src |-> src, dst |-> EffDst(pgn, dst), prio |-> prio]

\* Actisense N2K ASCII header word: source, destination, priority nibbles.
ActisenseHdr(src, dst, prio) == src * 4096 + dst * 16 + prio
=============================================================================
