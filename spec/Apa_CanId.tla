----------------------------- MODULE Apa_CanId -----------------------------
(* Unbounded obligation for C05, discharged symbolically by Apalache:      *)
(* for every natural id < 2^29, IdRoundTrip(id); for every 18-bit pgn and  *)
(* every byte src/dst and 3-bit prio, TupleRoundTrip.                      *)
EXTENDS Integers

VARIABLES
  \* @type: Int;
  vid,
  \* @type: Int;
  vpgn,
  \* @type: Int;
  vsrc,
  \* @type: Int;
  vdst,
  \* @type: Int;
  vprio

INSTANCE N2KCanId

Init == /\ vid \in Nat /\ vid < TwoTo29
        /\ vpgn \in Nat /\ vpgn < TwoTo18
        /\ vsrc \in Nat /\ vsrc < 256
        /\ vdst \in Nat /\ vdst < 256
        /\ vprio \in Nat /\ vprio < 8
Next == UNCHANGED <<vid, vpgn, vsrc, vdst, vprio>>

IdInv == IdRoundTrip(vid)
TupleInv == TupleRoundTrip(vpgn, vsrc, vdst, vprio)
Inv == IdInv /\ TupleInv
=============================================================================
