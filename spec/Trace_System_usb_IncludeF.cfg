SPECIFICATION TSpec
CONSTANTS
  Format = "usb"
  ChunkSizes = {0}
  Cfg <- IncludeF
CHECK_DEADLOCK FALSE
