----------------------------- MODULE MC_Framing -----------------------------
(***************************************************************************)
(* B1 for C12/C20 (framing half): for every stream of at most MaxLen bytes *)
(* over an alphabet containing the markers / line end, and EVERY           *)
(* segmentation of it into reads, the packets emitted by the read-by-read  *)
(* state machine are those of reading the stream at once (ChunkIndependent)*)
(* and the bytes held back stay bounded (Bounded); for the marker          *)
(* discipline the bounded variant emits exactly what the unbounded one     *)
(* does (SameAsUnbounded).                                                 *)
(* A behaviour = choose the next byte or cut here; state = (discipline,    *)
(* bytes since the last cut, held, emitted so far, whole stream so far).   *)
(***************************************************************************)
EXTENDS N2KFraming, TLC

CONSTANTS MaxLen, Alphabet, Discs
QuickDiscs == {[kind |-> "fixed", N |-> 3, M1 |-> 0, M2 |-> 0], [kind |-> "lines", N |-> 0, M1 |-> 0, M2 |-> 0],
               [kind |-> "marker", N |-> 4, M1 |-> 170, M2 |-> 85]}

VARIABLES d, stream, chunk, held, uheld, emitted, uemitted
vars == <<d, stream, chunk, held, uheld, emitted, uemitted>>

Init == /\ d \in Discs /\ stream = <<>> /\ chunk = <<>> /\ held = <<>> /\ uheld = <<>>
        /\ emitted = <<>> /\ uemitted = <<>>

\* the transport delivers one more byte into the pending read
Byte == /\ Len(stream) < MaxLen
        /\ \E b \in Alphabet : stream' = Append(stream, b) /\ chunk' = Append(chunk, b)
        /\ UNCHANGED <<d, held, uheld, emitted, uemitted>>
\* the read returns what has arrived since the last one
Cut == /\ chunk # <<>>
       /\ LET r == Read(d, held, chunk)
              u == IF d.kind = "marker" THEN MarkerRead(uheld, chunk, d.N, d.M1, d.M2) ELSE r
          IN /\ held' = r.rest /\ emitted' = emitted \o r.out
             /\ uheld' = u.rest /\ uemitted' = uemitted \o u.out
       /\ chunk' = <<>> /\ UNCHANGED <<d, stream>>
Next == Byte \/ Cut
Spec == Init /\ [][Next]_vars

Settled == chunk = <<>>
ChunkIndependent == Settled => emitted = Whole(d, stream)
SameAsUnbounded == Settled => emitted = uemitted
Bounded == Len(held) < (IF d.kind = "lines" THEN MaxLen + 1 ELSE d.N)
\* everything emitted has the discipline's shape
Shape == \A k \in 1..Len(emitted) :
           CASE d.kind = "fixed"  -> Len(emitted[k]) = d.N
             [] d.kind = "marker" -> Len(emitted[k]) = d.N /\ emitted[k][1] = d.M1 /\ emitted[k][2] = d.M2
             [] d.kind = "lines"  -> emitted[k][Len(emitted[k])] = 10
=============================================================================
