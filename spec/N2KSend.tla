------------------------------- MODULE N2KSend -------------------------------
(***************************************************************************)
(* send() of the gateway clients (ioclient.py:AsyncIOClient.send): encode  *)
(* (synchronously), then for each packet write() and await drain().        *)
(* drain() suspends only under back-pressure; a write or a drain may fail. *)
(* Several send() calls may be in flight; a lock (UseLock) serialises the  *)
(* write loops.  The wire is a sequence of packet tokens <<sender, k>>.    *)
(*                                                                         *)
(* Block structure (C19 "contiguously"): the wire is a concatenation of    *)
(* blocks <<i,1>> .. <<i,m>>, one per sender, m = all its packets, or      *)
(* fewer when a failing write cut it short.                                *)
(***************************************************************************)
EXTENDS Integers, Sequences, FiniteSets

RECURSIVE BlocksOK(_, _, _, _, _)
\* wire: sequence of <<i, k>>; n: sender -> number of packets; failed: senders whose write failed;
\* seen: senders that already had their block; active: senders still inside send() (only the last
\* block may be unfinished without a failure)
BlocksOK(wire, n, failed, seen, active) ==
  IF wire = <<>> THEN TRUE
  ELSE LET i == wire[1][1] IN
    /\ i \notin seen /\ wire[1][2] = 1
    /\ LET run == CHOOSE m \in 1..Len(wire) :
                     /\ \A k \in 1..m : wire[k] = <<i, k>>
                     /\ (m = Len(wire) \/ wire[m + 1] # <<i, m + 1>>)
       IN /\ run <= n[i]
          /\ (run < n[i] => (i \in failed \/ (i \in active /\ run = Len(wire))))
          /\ BlocksOK(SubSeq(wire, run + 1, Len(wire)), n, failed, seen \cup {i}, active)
=============================================================================
