----------------------------- MODULE Trace_System -----------------------------
(***************************************************************************)
(* Validation of runs of a real gateway client against the composed        *)
(* specification N2KSystem (part of C12).                                  *)
(* IN_FILE: records [reads (the sizes of the reads, in order), after (how  *)
(*   many messages the receive callback had seen after each read), msgs    *)
(*   (the messages it saw, in order: [pgn, src, tok, ident])]; the script, *)
(*   the format and the decoder configuration come from SCRIPT_FILE and    *)
(*   the configuration file.  The client is fed the bytes the              *)
(*   specification renders for the script (all of them are in flight       *)
(*   before the first read).                                               *)
(* What must hold: after every read the callback has seen exactly the      *)
(*   messages the decoder model returns for the packets that read          *)
(*   completed - the same prefix of `expected` the model delivers.         *)
(***************************************************************************)
EXTENDS N2KSystem

Recs == JsonDeserialize(IOEnv.IN_FILE)

RECURSIVE AllBytes(_, _)
AllBytes(n, qq) == IF n > Len(Script) THEN <<>>
                   ELSE BytesOf(Script[n], qq) \o AllBytes(n + 1, IF Script[n].k = "fast" THEN NextSeq(qq) ELSE qq)
Stream == AllBytes(1, 0)

\* the model's cumulative deliveries after each read: fold ReadBytes over the read sizes
RECURSIVE Fold(_, _, _, _, _, _)
Fold(reads, n, pos, hd, st, acc) ==
  IF n > Len(reads) THEN <<>>
  ELSE LET take == reads[n]
           r == Read(Disc, hd, SubSeq(Stream, pos + 1, pos + take))
           ins == [j \in 1..Len(r.out) |-> InOfPacket(r.out[j])]
           d == Run(st, ins, 1)
           acc2 == acc \o d.outs
       IN <<acc2>> \o Fold(reads, n + 1, pos + take, r.rest, d.st, acc2)

SameMsg(o, m) == o.pgn = m.pgn /\ o.src = m.src /\ o.tok = m.tok /\ o.ident = m.ident

Verdict(rec) ==
  LET model == Fold(rec.reads, 1, 0, <<>>, InitState, <<>>)
      n == Len(rec.reads)
      bad == {k \in 1..n : \/ rec.after[k] # Len(model[k])
                            \/ \E j \in 1..Len(model[k]) : j <= Len(rec.msgs) /\ ~SameMsg(rec.msgs[j], model[k][j])}
  IN IF Len(rec.after) # n THEN [k |-> 0, c |-> "MACHINERY.reads-and-samples-differ"]
     ELSE IF bad = {} THEN
            (IF n > 0 /\ Len(rec.msgs) # Len(model[n]) THEN [k |-> n, c |-> "system.deliveries-after-the-last-read"] ELSE [k |-> 0, c |-> "ok"])
     ELSE LET k == CHOOSE x \in bad : \A y \in bad : x <= y IN
            [k |-> k, c |-> IF rec.after[k] < Len(model[k]) THEN "system.message-not-delivered"
                            ELSE IF rec.after[k] > Len(model[k]) THEN "system.message-delivered-early-or-twice"
                            ELSE "system.wrong-message-delivered"]

Result == [n |-> Len(Recs), stream |-> Stream,
           bad |-> LET idx == SelectSeq([k \in 1..Len(Recs) |-> k], LAMBDA k : Verdict(Recs[k]).c # "ok")
                   IN [j \in 1..Len(idx) |-> [k |-> idx[j], v |-> Verdict(Recs[idx[j]])]]]

VARIABLE done
TInit == Init /\ done = FALSE
TNext == done = FALSE /\ done' = TRUE /\ JsonSerialize(IOEnv.OUT_FILE, Result) /\ UNCHANGED vars
TSpec == TInit /\ [][TNext]_<<vars, done>>
=============================================================================
