SPECIFICATION Spec
CONSTANTS
  Streams = {1}
  Lens <- AllLens
  MaxK = 1
INVARIANT Shape
INVARIANT InverseLaw
INVARIANT Counter
INVARIANT Forgets
CHECK_DEADLOCK FALSE
