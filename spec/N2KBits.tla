------------------------------ MODULE N2KBits ------------------------------
(***************************************************************************)
(* Payloads as byte sequences, fields as little-endian bit sequences.      *)
(*                                                                         *)
(* The library reads the whole payload as one little-endian integer and    *)
(* takes (data >> offset) & mask (decoder.py:433, utils.py:87).  TLC has   *)
(* 32-bit integers, so field codes are kept as sequences of bits           *)
(* (index 1 = least significant); integers wider than 30 bits are only     *)
(* ever compared, negated or trimmed, never multiplied.                    *)
(***************************************************************************)
EXTENDS Integers, Sequences, FiniteSets

Pow2Tab == <<1, 2, 4, 8, 16, 32, 64, 128, 256, 512, 1024, 2048, 4096, 8192, 16384, 32768,
             65536, 131072, 262144, 524288, 1048576, 2097152, 4194304, 8388608, 16777216,
             33554432, 67108864, 134217728, 268435456, 536870912, 1073741824>>
Pow2(k) == Pow2Tab[k + 1]                      \* k \in 0..30

\* bit i (0-based) of a byte sequence; bits beyond the end read as 0
BitAt(bytes, i) ==
  LET b == i \div 8 + 1 IN
    IF b <= Len(bytes) THEN (bytes[b] \div Pow2(i % 8)) % 2 ELSE 0

\* the n bits starting at bit offset off, least significant first
Slice(bytes, off, n) == [k \in 1..n |-> BitAt(bytes, off + k - 1)]

SetMax(S) == CHOOSE x \in S : \A y \in S : y <= x
SetMin(S) == CHOOSE x \in S : \A y \in S : x <= y

Ones(b)  == {k \in 1..Len(b) : b[k] = 1}
\* drop the zero bits above the most significant one (<<>> is zero)
Trim(b)  == IF Ones(b) = {} THEN <<>> ELSE SubSeq(b, 1, SetMax(Ones(b)))
AllOnes(b) == \A k \in 1..Len(b) : b[k] = 1
AllZero(b) == \A k \in 1..Len(b) : b[k] = 0

\* value of a bit sequence; only for at most 30 significant bits
RECURSIVE ToNatR(_, _)
ToNatR(b, k) == IF k > Len(b) THEN 0 ELSE b[k] * Pow2(k - 1) + ToNatR(b, k + 1)
Fits30(b) == Len(Trim(b)) <= 30
ToNat(b) == ToNatR(Trim(b), 1)

NatBits(n, w) == [k \in 1..w |-> (n \div Pow2(k - 1)) % 2]      \* n < 2^30, w <= 30

\* magnitude of the two's complement negative number whose code is b (top bit set):
\* 2^n - b  =  keep everything up to and including the lowest one, invert the rest
NegMag(b) ==
  LET lo == SetMin(Ones(b)) IN
    Trim([k \in 1..Len(b) |-> IF k <= lo THEN b[k] ELSE 1 - b[k]])

\* sign-magnitude integers: [neg |-> BOOLEAN, mag |-> trimmed bit sequence]; zero is never negative
Zero == [neg |-> FALSE, mag |-> <<>>]
SM(neg, mag) == IF Trim(mag) = <<>> THEN Zero ELSE [neg |-> neg, mag |-> Trim(mag)]

\* interpretation of an n-bit code as unsigned / two's complement
Unsigned(code) == SM(FALSE, code)
TwosComplement(code) ==
  IF Len(code) > 0 /\ code[Len(code)] = 1 THEN SM(TRUE, NegMag(code)) ELSE SM(FALSE, code)

MagLeq(a, b) ==          \* both trimmed
  IF Len(a) # Len(b) THEN Len(a) < Len(b)
  ELSE LET D == {k \in 1..Len(a) : a[k] # b[k]} IN
         IF D = {} THEN TRUE ELSE a[SetMax(D)] < b[SetMax(D)]

SMLeq(x, y) ==
  CASE x.neg /\ ~y.neg  -> TRUE
    [] ~x.neg /\ y.neg  -> FALSE
    [] ~x.neg /\ ~y.neg -> MagLeq(x.mag, y.mag)
    [] OTHER            -> MagLeq(y.mag, x.mag)

SMEq(x, y) == x.neg = y.neg /\ x.mag = y.mag

\* a - b for trimmed magnitudes with b <= a (ripple borrow)
RECURSIVE SubR(_, _, _, _)
SubR(a, b, k, borrow) ==
  IF k > Len(a) THEN <<>>
  ELSE LET bk == IF k <= Len(b) THEN b[k] ELSE 0
           d  == a[k] - bk - borrow
       IN <<(d + 2) % 2>> \o SubR(a, b, k + 1, IF d < 0 THEN 1 ELSE 0)
MagDiff(a, b) == IF MagLeq(b, a) THEN Trim(SubR(a, b, 1, 0)) ELSE Trim(SubR(b, a, 1, 0))

\* x is y up to a relative error of 2^-keep (used only where a double cannot hold every bit)
SMNear(x, y, keep) ==
  IF x.neg = y.neg THEN Len(MagDiff(x.mag, y.mag)) + keep <= Len(y.mag) \/ x.mag = y.mag
  ELSE Len(x.mag) + keep <= Len(y.mag) /\ Len(y.mag) <= 1

\* x + 1 on magnitudes / sign-magnitude integers
RECURSIVE IncR(_, _)
IncR(a, k) == IF k > Len(a) THEN Append(a, 1)
              ELSE IF a[k] = 0 THEN [a EXCEPT ![k] = 1] ELSE IncR([a EXCEPT ![k] = 0], k + 1)
MagInc(a) == IncR(a, 1)
MagDec(a) == Trim(SubR(a, <<1>>, 1, 0))            \* a # <<>>
SMInc(x) == IF x.neg THEN SM(TRUE, MagDec(x.mag)) ELSE SM(FALSE, MagInc(x.mag))

\* bytes of a byte-aligned slice
BytesAt(bytes, off, n) ==          \* off, n multiples of 8
  [k \in 1..(n \div 8) |-> IF off \div 8 + k <= Len(bytes) THEN bytes[off \div 8 + k] ELSE 0]
=============================================================================
