---------------------------- MODULE Trace_FPSend ----------------------------
(***************************************************************************)
(* Record validation of the sender half of C03: each record is one message *)
(* as the real encoder framed it:                                          *)
(*   [payload (bytes), frames (sequence of CAN data byte sequences),       *)
(*    prevq (sequence counter of the message the same encoder sent before, *)
(*    -1 if none)]                                                         *)
(* judged against N2KFastPacket!Segment.                                   *)
(***************************************************************************)
EXTENDS N2KFastPacket, Json, IOUtils

Recs == JsonDeserialize(IOEnv.IN_FILE)

Verdict(r) ==
  LET L == Len(r.payload)
      n == Len(r.frames)
  IN IF n # NFrames(L) THEN "frames.count"
     ELSE IF \E k \in 1..n : Len(r.frames[k]) > 8 \/ Len(r.frames[k]) < 1 THEN "frames.size"
     ELSE LET q == r.frames[1][1] \div 32 IN
       IF \E k \in 1..n : r.frames[k][1] # q * 32 + (k - 1) THEN "frames.counter"
       ELSE IF q = r.prevq THEN "sequence.not-advanced"
       ELSE IF r.prevq >= 0 /\ q # NextSeq(r.prevq) THEN "sequence.step"
       ELSE IF Len(r.frames[1]) < 2 \/ r.frames[1][2] # L THEN "first.length-byte"
       ELSE IF \E k \in 1..n :
                 LET hdr == IF k = 1 THEN 2 ELSE 1
                     ch == SubSeq(r.frames[k], hdr + 1, Len(r.frames[k]))
                 IN \/ Len(ch) < ChunkLen(L, k - 1)                      \* data missing
                    \/ SubSeq(ch, 1, ChunkLen(L, k - 1)) # SubSeq(r.payload, ChunkStart(k - 1) + 1, ChunkStart(k - 1) + ChunkLen(L, k - 1))
            THEN "frames.data"
       ELSE "ok"

Verdicts ==
  LET idx == SelectSeq([k \in 1..Len(Recs) |-> k], LAMBDA k : Verdict(Recs[k]) # "ok")
  IN [n |-> Len(Recs), bad |-> [j \in 1..Len(idx) |-> [k |-> idx[j], c |-> Verdict(Recs[idx[j]])]]]

\* the shape table of the specification for every length (B2: compared with the encoder by lookup)
Table == [L \in 0..223 |-> [n |-> NFrames(L), chunks |-> [i \in 1..NFrames(L) |-> <<ChunkStart(i - 1), ChunkLen(L, i - 1)>>]]]

VARIABLE done
Init == done = FALSE
Next == /\ done = FALSE /\ done' = TRUE
        /\ JsonSerialize(IOEnv.OUT_FILE, Verdicts)
        /\ JsonSerialize(IOEnv.TABLE_FILE, [L \in 1..224 |-> Table[L - 1]])
Spec == Init /\ [][Next]_done
=============================================================================
