INIT Init2
NEXT Next2
INVARIANT KeyLaw
INVARIANT ConvLaw
INVARIANT FrameLaw
CHECK_DEADLOCK FALSE
