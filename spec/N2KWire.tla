------------------------------- MODULE N2KWire -------------------------------
(***************************************************************************)
(* The gateway wire formats as operators over byte sequences.              *)
(*   frame = [id |-> 29-bit identifier, data |-> 0..8 CAN data bytes]      *)
(*                                                                         *)
(*   EByte / ECAN binary (13 bytes)  decoder.py:decode_tcp, encode_ebyte   *)
(*   Waveshare USB binary (20 bytes) decode_usb, encode_usb, checksum      *)
(*   Yacht Devices RAW text          decode_yacht_devices_string           *)
(*   Actisense N2K ASCII             decode_actisense_string (whole msgs)  *)
(*   canboat plain text              decode_basic_string                   *)
(***************************************************************************)
EXTENDS Integers, Sequences, FiniteSets, N2KCanId

Pad8(data) == data \o [k \in 1..(8 - Len(data)) |-> 0]
BE4(n) == <<(n \div 16777216) % 256, (n \div 65536) % 256, (n \div 256) % 256, n % 256>>
LE4(n) == <<n % 256, (n \div 256) % 256, (n \div 65536) % 256, (n \div 16777216) % 256>>
FromBE4(b) == b[1] * 16777216 + b[2] * 65536 + b[3] * 256 + b[4]
FromLE4(b) == b[4] * 16777216 + b[3] * 65536 + b[2] * 256 + b[1]
RECURSIVE SumSeq(_)
SumSeq(s) == IF s = <<>> THEN 0 ELSE s[1] + SumSeq(Tail(s))

----------------------------------------------------------------------------
(* EByte: type byte (0x80 = extended frame | data length), identifier big-endian, 8 data bytes *)
EByteRender(fr) == <<128 + Len(fr.data)>> \o BE4(fr.id) \o Pad8(fr.data)
EByteSize == 13
EByteParse(p) == [id |-> FromBE4(SubSeq(p, 2, 5)), data |-> SubSeq(p, 6, 5 + (p[1] % 16))]

----------------------------------------------------------------------------
(* Waveshare USB-CAN-A fixed 20-byte protocol *)
UsbChecksum(p) == SumSeq(SubSeq(p, 3, 19)) % 256          \* bytes 3..19 (1-based)
UsbBody(fr) == <<170, 85, 1, 2, 1>> \o LE4(fr.id) \o <<Len(fr.data)>> \o Pad8(fr.data) \o <<0>>
UsbRender(fr) == LET b == UsbBody(fr) IN Append(b, UsbChecksum(b))
UsbSize == 20
UsbValid(p) == Len(p) = 20 /\ p[1] = 170 /\ p[2] = 85 /\ p[20] = UsbChecksum(p)
UsbParse(p) == [id |-> FromLE4(SubSeq(p, 6, 9)), data |-> SubSeq(p, 11, 10 + p[10])]

----------------------------------------------------------------------------
(* text *)
HexU == <<48, 49, 50, 51, 52, 53, 54, 55, 56, 57, 65, 66, 67, 68, 69, 70>>
HexL == <<48, 49, 50, 51, 52, 53, 54, 55, 56, 57, 97, 98, 99, 100, 101, 102>>
Hex2(b, upper) == LET t == IF upper THEN HexU ELSE HexL IN <<t[(b \div 16) + 1], t[(b % 16) + 1]>>
RECURSIVE HexN(_, _, _)
HexN(n, digits, upper) ==            \* fixed number of hex digits, most significant first
  IF digits = 0 THEN <<>>
  ELSE HexN(n \div 16, digits - 1, upper) \o <<(IF upper THEN HexU ELSE HexL)[(n % 16) + 1]>>
RECURSIVE Dec(_)
Dec(n) == IF n < 10 THEN <<48 + n>> ELSE Dec(n \div 10) \o <<48 + (n % 10)>>
SP == 32
CR == 13
LF == 10
COMMA == 44
RECURSIVE JoinHex(_, _, _)
JoinHex(data, sep, upper) ==
  IF data = <<>> THEN <<>>
  ELSE IF Len(data) = 1 THEN Hex2(data[1], upper)
  ELSE Hex2(data[1], upper) \o <<sep>> \o JoinHex(Tail(data), sep, upper)
Ascii(str) == str                      \* timestamps are passed in as byte sequences already

\* Yacht Devices RAW: "hh:mm:ss.mmm R 09F8027F 00 FC FF FF 00 00 FF FF<CR><LF>" (send form: no time / direction)
YdReceive(fr, stamp, dir, upper) ==
  stamp \o <<SP, dir, SP>> \o HexN(fr.id, 8, upper) \o <<SP>> \o JoinHex(fr.data, SP, upper) \o <<CR, LF>>
YdSend(fr) == HexN(fr.id, 8, TRUE) \o <<SP>> \o JoinHex(fr.data, SP, TRUE) \o <<CR, LF>>
YdLineOK(p) == /\ Len(p) >= 2 /\ p[Len(p) - 1] = CR /\ p[Len(p)] = LF
               /\ \A k \in 1..(Len(p) - 2) : p[k] # CR /\ p[k] # LF

\* reading such a line back (decode_yacht_devices_string): blank-separated tokens, hexadecimal numbers
HexVal(c) == IF c >= 48 /\ c <= 57 THEN c - 48 ELSE IF c >= 65 /\ c <= 70 THEN c - 55
             ELSE IF c >= 97 /\ c <= 102 THEN c - 87 ELSE -1
IsHex(t) == t # <<>> /\ \A k \in 1..Len(t) : HexVal(t[k]) >= 0
RECURSIVE HexNum(_)
HexNum(t) == IF t = <<>> THEN 0 ELSE HexNum(SubSeq(t, 1, Len(t) - 1)) * 16 + HexVal(t[Len(t)])
Blank(c) == c \in {SP, CR, LF, 9}
RECURSIVE Tokens(_)
Tokens(line) ==                       \* maximal runs of non-blank bytes
  IF line = <<>> THEN <<>>
  ELSE IF Blank(line[1]) THEN Tokens(Tail(line))
  ELSE LET ends == {k \in 1..Len(line) : Blank(line[k])}
           e == IF ends = {} THEN Len(line) + 1 ELSE CHOOSE x \in ends : \A y \in ends : x <= y
       IN <<SubSeq(line, 1, e - 1)>> \o Tokens(SubSeq(line, e, Len(line)))
YdValid(line) == LET t == Tokens(line) IN
                   /\ Len(t) >= 4 /\ t[2] \in {<<82>>, <<84>>}              \* "R" or "T"
                   /\ IsHex(t[3]) /\ Len(t[3]) <= 8 /\ \A k \in 4..Len(t) : IsHex(t[k]) /\ Len(t[k]) <= 2
YdParse(line) == LET t == Tokens(line) IN [id |-> HexNum(t[3]), data |-> [k \in 1..(Len(t) - 3) |-> HexNum(t[k + 3])]]

\* Actisense N2K ASCII (whole message): "A173321.107 23FF7 1F513 <payload hex>"
RECURSIVE HexCat(_, _)
HexCat(data, upper) == IF data = <<>> THEN <<>> ELSE Hex2(data[1], upper) \o HexCat(Tail(data), upper)
ActisenseBody(src, dst, prio, pgn, payload, upper) ==
  HexN(ActisenseHdr(src, dst, prio), 5, upper) \o <<SP>> \o HexN(pgn, 5, upper) \o <<SP>> \o HexCat(payload, upper)
ActisenseReceive(stamp, src, dst, prio, pgn, payload, upper) ==
  stamp \o <<SP>> \o ActisenseBody(src, dst, prio, pgn, payload, upper)

\* reading it back (decode_actisense_string): stamp, header, PGN, payload as one run of hex digit pairs
RECURSIVE HexPairs(_)
HexPairs(t) == IF Len(t) < 2 THEN <<>> ELSE <<HexVal(t[1]) * 16 + HexVal(t[2])>> \o HexPairs(SubSeq(t, 3, Len(t)))
ActisenseValid(line) == LET t == Tokens(line) IN
                          /\ Len(t) >= 4 /\ t[1] # <<>> /\ t[1][1] = 65                       \* "A..."
                          /\ IsHex(t[2]) /\ IsHex(t[3]) /\ IsHex(t[4]) /\ Len(t[4]) % 2 = 0
ActisenseParse(line) == LET t == Tokens(line)
                            h == HexNum(t[2])
                        IN [src |-> (h \div 4096) % 256, dst |-> (h \div 16) % 256, prio |-> h % 16,
                            pgn |-> HexNum(t[3]), payload |-> HexPairs(t[4])]

\* canboat plain: "2020-01-01-00:00:00.000,prio,pgn,src,dst,len,b0,b1,..."
Plain(stamp, src, dst, prio, pgn, data, upper) ==
  stamp \o <<COMMA>> \o Dec(prio) \o <<COMMA>> \o Dec(pgn) \o <<COMMA>> \o Dec(src) \o <<COMMA>> \o Dec(dst)
        \o <<COMMA>> \o Dec(Len(data)) \o <<COMMA>> \o JoinHex(data, COMMA, upper)
=============================================================================
