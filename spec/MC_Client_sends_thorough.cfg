SPECIFICATION Spec
CONSTANTS
  NC = 4
  NU = 2
  MaxConn = 4
  MaxRefuse = 2
  MaxFeed = 1
  MaxEof = 2
  SlowSet = {}
  CfgWrite = FALSE
  NCl = 1
  MaxSend = 3
INVARIANT MonitorQuiet
INVARIANT OneReceivePath
INVARIANT LockDiscipline
INVARIANT NeverStuck
INVARIANT AllShut
PROPERTY ClosedFinal
CHECK_DEADLOCK FALSE
