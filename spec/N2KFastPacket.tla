--------------------------- MODULE N2KFastPacket ---------------------------
(***************************************************************************)
(* NMEA 2000 fast-packet transport: sender segmentation, receiver          *)
(* reassembly (shaped like decoder.py:_decode_fast_message), a faulty      *)
(* network between them, and the property monitor of C03/C04.              *)
(*                                                                         *)
(* Frame = [seq (3-bit sequence counter), fc (frame counter), len          *)
(*          (announced total length, meaningful on fc = 0), chunk]         *)
(* chunk = the data bytes the frame carries after the counter byte (and    *)
(*         after the length byte on the first frame), padding included.    *)
(* Payload bytes are identities <<stream, message, index>>, padding bytes  *)
(* are <<"pad", v>>, so any mixing or leaking is visible.                  *)
(***************************************************************************)
EXTENDS Integers, Sequences, FiniteSets, SequencesExt, TLC

None == [none |-> TRUE]                           \* "no buffer"
\* what one receive step returns: nothing, or a payload (uniform shape: TLC cannot compare a
\* sequence with a record)
NoOut == [some |-> FALSE, payload |-> <<>>]
Out(p) == [some |-> TRUE, payload |-> p]

----------------------------------------------------------------------------
(* Sender: encoder.py:_encode_fast_message *)

NFrames(L) == IF L <= 6 THEN 1 ELSE 1 + ((L - 6) + 6) \div 7
Fcs(L) == 0..(NFrames(L) - 1)
ChunkStart(i) == IF i = 0 THEN 0 ELSE 6 + 7 * (i - 1)
Capacity(i) == IF i = 0 THEN 6 ELSE 7
ChunkLen(L, i) == LET rem == L - ChunkStart(i) IN IF rem >= Capacity(i) THEN Capacity(i) ELSE rem

Byte(s, m, j) == <<s, m, j>>
Payload(s, m, L) == [j \in 1..L |-> Byte(s, m, j)]

\* pad = "none": the frame is as short as its data (what this library's encoder sends);
\* otherwise the frame is filled to 8 bytes with the pad value (what devices on the bus send)
Chunk(s, m, L, i, pad) ==
  LET n == ChunkLen(L, i)
      data == [k \in 1..n |-> Byte(s, m, ChunkStart(i) + k)]
  IN IF pad = "none" THEN data ELSE data \o [k \in 1..(Capacity(i) - n) |-> <<"pad", pad>>]

Frame(s, m, L, q, i, pad) == [seq |-> q, fc |-> i, len |-> L, chunk |-> Chunk(s, m, L, i, pad)]
Segment(s, m, L, q) == [k \in 1..NFrames(L) |-> Frame(s, m, L, q, k - 1, "none")]
NextSeq(q) == (q + 1) % 8

\* shape facts of C03 (checked by MC_FP_Inverse for every L and q)
SegmentShape(s, m, L, q) ==
  LET fr == Segment(s, m, L, q) IN
    /\ \A k \in 1..Len(fr) : /\ fr[k].seq = q /\ fr[k].fc = k - 1
                             /\ Len(fr[k].chunk) + (IF k = 1 THEN 2 ELSE 1) <= 8
                             /\ (k > 1 => Len(fr[k].chunk) >= 1)           \* no frame for data that does not exist
    /\ fr[1].len = L
    /\ FlattenSeq([k \in 1..Len(fr) |-> fr[k].chunk]) = Payload(s, m, L)

----------------------------------------------------------------------------
(* Receiver: one reassembly buffer per stream key (PGN, source, destination) *)

Fresh == [len |-> 0, seq |-> -1, stored |-> 0, frames |-> <<>>]     \* frames: function fc -> chunk

Store(b, fr) == [b EXCEPT !.frames = (fr.fc :> fr.chunk) @@ b.frames,
                          !.stored = b.stored + Len(fr.chunk)]
Joined(b) == FlattenSeq([k \in 1..Cardinality(DOMAIN b.frames) |->
                            b.frames[SetToSortSeq(DOMAIN b.frames, <)[k]]])
\* only the announced number of bytes is the payload; what follows is padding
Deliverable(b) == SubSeq(Joined(b), 1, IF b.len < Len(Joined(b)) THEN b.len ELSE Len(Joined(b)))

\* Recv(b, fr) = [buf |-> buffer afterwards (None = forgotten), out |-> NoOut or Out(payload)]
Recv(b0, fr) ==
  LET b == IF b0 = None THEN Fresh ELSE b0 IN
    IF fr.fc # 0 /\ b.len = 0 THEN [buf |-> b0, out |-> NoOut]           \* no first frame seen
    ELSE LET accepted ==
               IF fr.fc = 0 /\ fr.seq # b.seq
               THEN Store([len |-> fr.len, seq |-> fr.seq, stored |-> 0, frames |-> <<>>], fr)  \* (re)start
               ELSE IF fr.seq # b.seq \/ fr.fc \in DOMAIN b.frames THEN None       \* other sequence / duplicate
               ELSE Store(b, fr)
         IN IF accepted = None THEN [buf |-> b0, out |-> NoOut]
            ELSE IF accepted.stored >= accepted.len
                 THEN [buf |-> None, out |-> Out(Deliverable(accepted))]
                 ELSE [buf |-> accepted, out |-> NoOut]
=============================================================================
