------------------------------- MODULE MC_Wire -------------------------------
(***************************************************************************)
(* B1 for C06/C07: laws of the wire-format operators (N2KWire) and of the  *)
(* re-framing of concatenated packets (N2KFraming), over frames whose data *)
(* bytes come from an alphabet containing the delimiters and markers of    *)
(* every format (LF, CR, 0x55, 0xAA) and the extremes.                     *)
(***************************************************************************)
EXTENDS N2KWire, N2KFraming, TLC

Alphabet == {0, 10, 13, 85, 170, 255}
Ids == {0, 166724097, 536870911}          \* 0x09F00201? (a PDU2 id), all ones
TwoSym == {85, 170}

VARIABLES id, data, stage
vars == <<id, data, stage>>
Init == id = 0 /\ data = <<>> /\ stage = 0
Next ==
  \/ stage = 0 /\ id' \in Ids /\ stage' = 1 /\ data' = <<>>
  \/ stage = 1 /\ stage' = 2 /\ UNCHANGED id
     /\ \/ \E n \in 0..3 : data' \in [1..n -> Alphabet]
        \/ data' \in [1..8 -> TwoSym]
        \/ \E n \in 4..7 : \E b \in Alphabet : data' = [k \in 1..n |-> b]
Spec == Init /\ [][Next]_vars

Fr == [id |-> id, data |-> data]
Live == stage = 2

EByteLaw == Live => /\ Len(EByteRender(Fr)) = EByteSize
                    /\ EByteParse(EByteRender(Fr)) = Fr
UsbLaw == Live => /\ Len(UsbRender(Fr)) = UsbSize /\ UsbValid(UsbRender(Fr))
                  /\ UsbParse(UsbRender(Fr)) = Fr

\* every single corrupted byte in positions 3..20 is exposed by the checksum
ChecksumLaw == (Live /\ id = 166724097) =>
  LET p == UsbRender(Fr) IN
    \A pos \in 3..20, d \in 1..255 : ~UsbValid([p EXCEPT ![pos] = (p[pos] + d) % 256])

YdLaw == Live => /\ YdLineOK(YdSend(Fr))
                 /\ YdLineOK(YdReceive(Fr, <<48, 48, 58, 48, 48, 58, 48, 48, 46, 48, 48, 48>>, 82, FALSE))

\* a concatenation of packets is split back into the same packets by the matching discipline,
\* also when the data bytes contain the markers / line ends of the format
Other == [id |-> 435418373, data |-> <<170, 85, 10, 13, 170, 85, 0, 255>>]
SplitLaw == Live =>
  /\ FixedCut(EByteRender(Fr) \o EByteRender(Other) \o EByteRender(Fr), EByteSize)
        = [out |-> <<EByteRender(Fr), EByteRender(Other), EByteRender(Fr)>>, rest |-> <<>>]
  /\ MarkerCut(UsbRender(Fr) \o UsbRender(Other) \o UsbRender(Fr), UsbSize, 170, 85)
        = [out |-> <<UsbRender(Fr), UsbRender(Other), UsbRender(Fr)>>, rest |-> <<>>]
  /\ LineCut(YdSend(Fr) \o YdSend(Other) \o YdSend(Fr))
        = [out |-> <<YdSend(Fr), YdSend(Other), YdSend(Fr)>>, rest |-> <<>>]
=============================================================================
