SPECIFICATION TSpec
CONSTANTS
  Format = "ebyte"
  ChunkSizes = {0}
  Cfg <- IncludeF
CHECK_DEADLOCK FALSE
