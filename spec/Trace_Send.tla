------------------------------ MODULE Trace_Send ------------------------------
(***************************************************************************)
(* Validation of send() sessions recorded from the real clients (C19).     *)
(* record = [n (packets the mirror encoder produces per send() call, 0 =   *)
(*           the message cannot be sent as such), wire (tokens <<i, k>> of *)
(*           everything written to the link(s), in order; i = -1: a packet *)
(*           no send() call accounts for), failed (calls during which a    *)
(*           write or drain raised), statuses (notifications after the     *)
(*           initial CONNECTED), opens (connection attempts), bad (calls   *)
(*           whose message cannot be sent), clean (no fault was injected), *)
(*           stale (packets written to a link after a newer connection    *)
(*           had been adopted: they never reach the gateway), allowed     *)
(*           (connection attempts the session itself asked for)]           *)
(***************************************************************************)
EXTENDS N2KSend, Json, IOUtils, TLC

Recs == JsonDeserialize(IOEnv.IN_FILE)

Verdict(r) ==
  LET calls == 1..Len(r.n)
      nfun == [i \in calls |-> r.n[i]]
      failed == {r.failed[k] : k \in 1..Len(r.failed)}
      bad == {r.bad[k] : k \in 1..Len(r.bad)}
  IN IF \E k \in 1..Len(r.wire) : r.wire[k][1] = -1 THEN "foreign-packet-on-the-link"
     ELSE IF \E k \in 1..Len(r.wire) : r.wire[k][1] \in bad THEN "unsendable-message-wrote"
     ELSE IF r.stale > 0 THEN "packet-written-to-a-replaced-link"
     ELSE IF ~BlocksOK(r.wire, nfun, failed, {}, {}) THEN
          (IF \E a, b, c \in 1..Len(r.wire) : a < b /\ b < c /\ r.wire[a][1] = r.wire[c][1] /\ r.wire[b][1] # r.wire[a][1]
           THEN "packets-of-two-messages-interleaved" ELSE "packets-missing-or-out-of-order")
     ELSE IF \E i \in calls : i \notin bad /\ i \notin failed /\ r.n[i] > 0 /\ r.complete
                               /\ Cardinality({k \in 1..Len(r.wire) : r.wire[k][1] = i}) # r.n[i]
          THEN "message-not-fully-written"
     \* (allowed: the session's own connect() call - 1, or 0 for a client that was never connected)
     ELSE IF r.clean /\ (Len(r.statuses) > 0 \/ r.opens > r.allowed) THEN "harmless-send-disturbed-the-connection"
     ELSE IF failed # {} /\ ~(\E k \in 1..Len(r.statuses) : r.statuses[k] = "DISCONNECTED") THEN "write-failure-not-reported"
     ELSE IF failed # {} /\ r.opens < 2 THEN "write-failure-without-reconnection"
     ELSE "ok"

Verdicts ==
  LET idx == SelectSeq([k \in 1..Len(Recs) |-> k], LAMBDA k : Verdict(Recs[k]) # "ok")
  IN [n |-> Len(Recs), bad |-> [j \in 1..Len(idx) |-> [k |-> idx[j], c |-> Verdict(Recs[idx[j]])]]]

VARIABLE done
Init == done = FALSE
Next == done = FALSE /\ done' = TRUE /\ JsonSerialize(IOEnv.OUT_FILE, Verdicts)
Spec == Init /\ [][Next]_done
=============================================================================
