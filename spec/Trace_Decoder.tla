----------------------------- MODULE Trace_Decoder -----------------------------
(***************************************************************************)
(* Validation of decoder histories recorded from real NMEA2000Decoder      *)
(* objects against N2KDecoder!Step (C10, C11, C16).                        *)
(* IN_FILE: sequence of traces [cfg, evs]; an event is                     *)
(*   [in (model input with concrete content), window, who ("FU"|"G"),      *)
(*    obsF, obsU]   obs = [ret ("msg"|"none"|"err"), pgn, src, tok, ident] *)
(* F is the decoder built with cfg, U its twin without PGN filters; events *)
(* with who = "G" went to a third, unrelated instance and must leave F and *)
(* U alone (their model state does not move).                              *)
(***************************************************************************)
EXTENDS N2KDecoder, Json, IOUtils, TLC

Traces == JsonDeserialize(IOEnv.IN_FILE)
SeqSet(q) == {q[k] : k \in 1..Len(q)}
CfgOf(c) == [mode |-> c.mode, nums |-> SeqSet(c.nums), ids |-> SeqSet(c.ids), mfrMode |-> c.mfrMode,
             mfrs |-> SeqSet(c.mfrs), mfrsIn |-> SeqSet(c.mfrsIn), netmap |-> c.netmap]
Unfiltered(c) == [c EXCEPT !.mode = "none", !.nums = {}, !.ids = {}]

VARIABLES t, l, sF, sU, bad
vars == <<t, l, sF, sU, bad>>
Init == t = 1 /\ l = 1 /\ sF = InitState /\ sU = InitState /\ bad = <<>>

\* compare what the model says with what was observed; "" = agreement
Diff(r, o, tag) ==
  IF r.err THEN (IF o.ret \in {"err", "none"} THEN "" ELSE tag \o ".bad-input-returned-a-message")   \* refused or ignored
  ELSE IF o.ret = "err" THEN tag \o ".error-raised"
  ELSE IF ~r.out.some THEN (IF o.ret = "none" THEN "" ELSE tag \o ".unexpected-output")
  ELSE IF o.ret = "none" THEN tag \o ".missing-output"
  ELSE IF o.pgn # r.out.pgn \/ o.src # r.out.src THEN tag \o ".wrong-message"
  ELSE IF o.tok # r.out.tok THEN tag \o ".wrong-content"
  ELSE IF o.ident # r.out.ident THEN tag \o ".wrong-identity"
  ELSE ""

Step1 ==
  /\ t <= Len(Traces) /\ l <= Len(Traces[t].evs)
  /\ LET e == Traces[t].evs[l]
         c == CfgOf(Traces[t].cfg)
     IN IF e.who = "G" THEN UNCHANGED <<sF, sU, bad>>
        ELSE LET rF == Step(c, sF, e.in, e.window)
                 rU == Step(Unfiltered(c), sU, e.in, e.window)
                 dF == Diff(rF, e.obsF, "F")
                 dU == Diff(rU, e.obsU, "U")
             IN /\ sF' = rF.st /\ sU' = rU.st
                /\ bad' = bad \o (IF dF = "" THEN <<>> ELSE <<[t |-> t, l |-> l, c |-> dF]>>)
                              \o (IF dU = "" THEN <<>> ELSE <<[t |-> t, l |-> l, c |-> dU]>>)
  /\ l' = l + 1 /\ t' = t
NextTrace == /\ t <= Len(Traces) /\ l > Len(Traces[t].evs)
             /\ t' = t + 1 /\ l' = 1 /\ sF' = InitState /\ sU' = InitState /\ bad' = bad
Finish == /\ t = Len(Traces) + 1 /\ l = 1
          /\ JsonSerialize(IOEnv.OUT_FILE, [n |-> Len(Traces), bad |-> bad])
          /\ t' = t + 1 /\ UNCHANGED <<l, sF, sU, bad>>
Next == Step1 \/ NextTrace \/ Finish
Spec == Init /\ [][Next]_vars
=============================================================================
