------------------------------ MODULE MC_Decoder ------------------------------
(***************************************************************************)
(* B1 for C10 / C11 / C16: a filtered decoder F and an unfiltered twin U   *)
(* (same manufacturer / network-map settings, no PGN filter) are fed the   *)
(* same history; a second, independent instance G receives other inputs.   *)
(*   C10  Selection, MapAgree                                              *)
(*   C11  LatestClaim, NoLeak, Discovery, Isolation                        *)
(*   C16  BadInputsHarmless, NoCrossTalk (G's steps never change F)        *)
(***************************************************************************)
EXTENDS N2KDecoder, TLC

CONSTANTS MaxLen, Srcs, PgnLists, CfgSet, FLen

Numbers == {"A", "B", "F", "CLAIM", "P"}
Idents == {"A", "B", "F", "CLAIM", "P1", "P2"}
AllLists == {l \in [nums : SUBSET Numbers, ids : SUBSET Idents] : Cardinality(l.nums) + Cardinality(l.ids) <= 2}
QuickLists == {l \in AllLists : Cardinality(l.nums) + Cardinality(l.ids) <= 1}
              \cup {[nums |-> {"A"}, ids |-> {"B"}], [nums |-> {"A"}, ids |-> {"CLAIM"}], [nums |-> {"CLAIM"}, ids |-> {"A"}],
                    [nums |-> {"F"}, ids |-> {"F"}], [nums |-> {"F"}, ids |-> {"A"}], [nums |-> {"P"}, ids |-> {"P1"}]}
MfrModes == {"none", "exclude", "include", "both"}
MfrList(mm) == IF mm = "none" THEN {} ELSE {"m1"}
MfrIn(mm) == IF mm = "both" THEN {"m1", "m2"} ELSE {}        \* "both": m1 is on both lists, m2 only on the include list
AllCfgs ==
  {[mode |-> m, nums |-> l.nums, ids |-> l.ids, mfrMode |-> mm, mfrs |-> MfrList(mm), mfrsIn |-> MfrIn(mm), netmap |-> nm] :
     m \in {"exclude", "include"}, l \in PgnLists, mm \in MfrModes, nm \in BOOLEAN}
  \cup {[mode |-> "none", nums |-> {}, ids |-> {}, mfrMode |-> mm, mfrs |-> MfrList(mm), mfrsIn |-> MfrIn(mm), netmap |-> nm] :
     mm \in MfrModes, nm \in BOOLEAN}
Unfiltered(c) == [c EXCEPT !.mode = "none", !.nums = {}, !.ids = {}]

VARIABLES cfg, sF, sU, sG, window, n, outF, outU, lastClaim, fast, prevF, ev
vars == <<cfg, sF, sU, sG, window, n, outF, outU, lastClaim, fast, prevF, ev>>
\* fast[s] = frames of the fast-packet message of source s already fed (0: none in flight), with its sequence counter

\* configuration families used to generate behaviours for the three properties
C10Cfgs == {c \in AllCfgs : c.mfrMode = "none" /\ ~c.netmap}
C11Cfgs == {c \in AllCfgs : c.mode = "none" \/ (c.nums \cup c.ids) \subseteq {"CLAIM"}}
C16Cfgs == {c \in AllCfgs : c.mode = "none" /\ c.mfrMode = "none" /\ ~c.netmap}

Init == /\ cfg \in CfgSet /\ sF = InitState /\ sU = InitState /\ sG = InitState /\ window = TRUE /\ n = 0
        /\ outF = NoMsg /\ outU = NoMsg /\ lastClaim = [s \in Srcs |-> 0]
        /\ fast = [s \in Srcs |-> [fed |-> 0, seq |-> 0, used |-> {}]] /\ prevF = InitState
        /\ ev = [k |-> "init"]

FrameIn(s, q, i) == [k |-> "frame", src |-> s, seq |-> q, fc |-> i, len |-> FLen, chunk |-> Chunk(s, q, FLen, i, "none")]

\* (frames of the proprietary PGN "Q" - one definition, no fallback - are explored for decoders without PGN and
\*  manufacturer lists: an ignored frame of a PGN must not change what later frames of that PGN decode to)
Inputs ==
  {[k |-> "single", pgn |-> p, src |-> s, tok |-> <<p, s>>] : p \in {"A", "B", "P1", "P2"}, s \in Srcs}
  \cup {[k |-> "claim", src |-> s, name |-> nm] : s \in Srcs, nm \in {1, 2, 3}}
  \cup {[k |-> "unknown", src |-> s] : s \in Srcs} \cup {[k |-> "bad"]}
  \* a message of the fast-packet PGN that arrives pre-assembled (Actisense, plain text with already_combined) - also while
  \* frames of that PGN are in flight: it is returned as it is and leaves every reassembly alone
  \cup {[k |-> "whole", src |-> s, tok |-> <<"F", s>>] : s \in Srcs}
  \cup (IF cfg.mode = "none" /\ cfg.mfrMode = "none"
        THEN {[k |-> "single", pgn |-> "Q1", src |-> s, tok |-> <<"Q1", s>>] : s \in Srcs} \cup {[k |-> "nomatch", src |-> s] : s \in Srcs}
        ELSE {})

Feed(in) ==
  LET rF == Step(cfg, sF, in, window)
      rU == Step(Unfiltered(cfg), sU, in, window)
  IN /\ sF' = rF.st /\ sU' = rU.st /\ outF' = rF.out /\ outU' = rU.out /\ prevF' = sF
     /\ lastClaim' = IF in.k = "claim" THEN [lastClaim EXCEPT ![in.src] = in.name] ELSE lastClaim
     /\ ev' = in /\ n' = n + 1

Plain == /\ n < MaxLen /\ \E in \in Inputs : Feed(in) /\ UNCHANGED <<cfg, sG, window, fast>>
\* the frames of a fast-packet message arrive in order (faults on them are MC_FP's business)
FastStart == /\ n < MaxLen
             /\ \E s \in Srcs, q \in {0, 1, 2, 3} : /\ fast[s].fed = 0 /\ q \notin fast[s].used      \* a fresh sequence counter
                                              /\ Feed(FrameIn(s, q, 0)) /\ fast' = [fast EXCEPT ![s] = [fed |-> 1, seq |-> q, used |-> {q}]]
             /\ UNCHANGED <<cfg, sG, window>>
FastNext == /\ n < MaxLen
            /\ \E s \in Srcs : /\ fast[s].fed >= 1
                               /\ Feed(FrameIn(s, fast[s].seq, fast[s].fed))
                               /\ fast' = [fast EXCEPT ![s].fed = IF @ + 1 = NFrames(FLen) THEN 0 ELSE @ + 1]
            /\ UNCHANGED <<cfg, sG, window>>
\* a truncated frame of the fast-packet PGN: the counter byte (and the length byte on a first frame) but no
\* data; it may disturb the message in flight, never a later message with a fresh sequence counter
FastTrunc == /\ n < MaxLen /\ cfg.mode = "none" /\ cfg.mfrMode = "none"     \* (explored for unfiltered decoders: C16)
             /\ \E s \in Srcs, q \in {0, 1, 2}, i \in {0, 1, 2} :
                  /\ Feed([k |-> "frame", src |-> s, seq |-> q, fc |-> i, len |-> FLen, chunk |-> <<>>])
                  /\ fast' = [fast EXCEPT ![s] = [fed |-> 0, seq |-> q, used |-> @.used \cup {q}]]
             /\ UNCHANGED <<cfg, sG, window>>
WindowCloses == /\ window /\ window' = FALSE /\ ev' = [k |-> "window"] /\ outF' = NoMsg /\ outU' = NoMsg /\ prevF' = sF
                /\ UNCHANGED <<cfg, sF, sU, sG, n, lastClaim, fast>>
\* another decoder instance lives its own life
Other == /\ n < MaxLen /\ \E in \in Inputs : sG' = Step(cfg, sG, in, window).st
         /\ ev' = [k |-> "other"] /\ outF' = NoMsg /\ outU' = NoMsg /\ prevF' = sF /\ n' = n + 1
         /\ UNCHANGED <<cfg, sF, sU, window, lastClaim, fast>>

Next == Plain \/ FastStart \/ FastNext \/ FastTrunc \/ WindowCloses \/ Other
Spec == Init /\ [][Next]_vars

----------------------------------------------------------------------------
Selection == outF = IF outU.some /\ Permitted(cfg, outU.pgn) THEN outU ELSE NoMsg
MapAgree == sF.ident = sU.ident

NonClaim(o) == o.some /\ o.pgn # "CLAIM"
LatestClaim == outF.some => outF.ident = lastClaim[outF.src]
NoLeak == NonClaim(outF) => MfrPermitted(cfg, lastClaim[outF.src])
Discovery == (cfg.netmap /\ window /\ NonClaim(outF)) => lastClaim[outF.src] # 0
Isolation == \A s \in Srcs : IdentOf(sF, s) = lastClaim[s]
\* non-vacuity of the manufacturer clauses: a permitted, claimed source's single frame is returned
Returned == (ev.k = "single" /\ Permitted(cfg, ev.pgn) /\ MfrPermitted(cfg, lastClaim[ev.src])
               /\ ~(cfg.netmap /\ window /\ lastClaim[ev.src] = 0)) => outF.some

BadInputsHarmless == ev.k \in {"bad", "unknown", "nomatch", "other", "window"} => (sF = prevF /\ ~outF.some)
NoCrossTalk == ev.k = "other" => sF = prevF
\* a complete in-order message with a fresh sequence counter is returned by the unfiltered twin whatever preceded it
FreshMessageReturned ==
  (ev.k = "frame" /\ ev.chunk # <<>> /\ ev.fc = NFrames(FLen) - 1 /\ fast[ev.src].fed = 0
     /\ ~cfg.netmap /\ cfg.mfrMode = "none") => outU.some
=============================================================================
