SPECIFICATION TSpec
CONSTANTS
  Format = "usb"
  ChunkSizes = {0}
  Cfg <- NoFilter
CHECK_DEADLOCK FALSE
