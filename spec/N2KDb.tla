------------------------------- MODULE N2KDb -------------------------------
(***************************************************************************)
(* The canboat database as TLA+ data.  Not hand-written: harness/gen_db.py *)
(* extracts it from /repo/canboat.json at check time (exact arithmetic),   *)
(* TLC loads it here.                                                      *)
(*                                                                         *)
(* Defs[i]: [idx, pgn, id, desc, ttl (ms, -1 = none), fast, len, minlen,   *)
(*           fallback, static, decodable, encodable, repeating, fields]    *)
(* field:   [o, id, dbid, name, unit, qty, type, kind, pk, off, len,       *)
(*           signed, twos, match, lookup, excessK, hasRange, lo, hi,       *)
(*           sentinelInRange, resNum, resDen, zeroOk, lenField,            *)
(*           indirect, indOff, indLen]                                     *)
(*   lo/hi are tick bounds ceil((RangeMin-Offset)/Res), floor((RangeMax-   *)
(*   Offset)/Res) as sign-magnitude bit integers.                          *)
(***************************************************************************)
EXTENDS Integers, Sequences, Json, IOUtils, TLC

Db == JsonDeserialize(IOEnv.DB_FILE)
Defs == Db.defs
NDefs == Len(Defs)
Lookups == Db.lookups
BitLookups == Db.bitlookups
IndirectLookups == Db.indirect      \* table name -> ("<companion code>_<own code>" -> text)

HasId(id) == id \in DOMAIN Db.byId
DefById(id) == Defs[Db.byId[id]]
\* indices of the definitions of a PGN, in database order
DefsOfPgn(pgn) == IF ToString(pgn) \in DOMAIN Db.byPgn THEN Db.byPgn[ToString(pgn)] ELSE <<>>
=============================================================================
