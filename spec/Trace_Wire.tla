------------------------------ MODULE Trace_Wire ------------------------------
(***************************************************************************)
(* Binding of N2KWire / N2KCanId / N2KFastPacket to the real encoders and  *)
(* decoders.  IOEnv.MODE:                                                  *)
(*   EMIT  B2: the specification renders each message of IN_FILE in every  *)
(*         input format and variant (C07); the harness feeds the renderings*)
(*         to the real decode_* entry points                               *)
(*   C07   judges the observations: every format gave the same message     *)
(*   C06   judges what the real encoders produced for each message         *)
(* message = [pgn, src, dst, prio, payload (bytes), fast (BOOLEAN), q]     *)
(***************************************************************************)
EXTENDS N2KWire, N2KFastPacket, Json, IOUtils

In == JsonDeserialize(IOEnv.IN_FILE)

\* CAN data bytes of the frames of a message (single frame: the payload itself)
FrameData(m) ==
  IF ~m.fast THEN <<m.payload>>
  ELSE LET L == Len(m.payload) IN
    [k \in 1..NFrames(L) |->
        <<m.q * 32 + (k - 1)>> \o (IF k = 1 THEN <<L>> ELSE <<>>)
          \o SubSeq(m.payload, ChunkStart(k - 1) + 1, ChunkStart(k - 1) + ChunkLen(L, k - 1))]
Ident(m) == Build(m.pgn, m.src, m.dst, m.prio)
Frames(m) == [k \in 1..Len(FrameData(m)) |-> [id |-> Ident(m), data |-> FrameData(m)[k]]]
MapF(m, R(_)) == [k \in 1..Len(Frames(m)) |-> R(Frames(m)[k])]

\* "00:00:00.000", "12:34:56.789", "A000000.000", "A173321.107", plain timestamps
T1 == <<48, 48, 58, 48, 48, 58, 48, 48, 46, 48, 48, 48>>
T2 == <<49, 50, 58, 51, 52, 58, 53, 54, 46, 55, 56, 57>>
A1 == <<65, 48, 48, 48, 48, 48, 48, 46, 48, 48, 48>>
A2 == <<65, 49, 55, 51, 51, 50, 49, 46, 49, 48, 55>>
P1 == <<50, 48, 50, 48, 45, 48, 49, 45, 48, 49, 45, 48, 48, 58, 48, 48, 58, 48, 48, 46, 48, 48, 48>>
P2 == <<50, 48, 50, 48, 45, 48, 49, 45, 48, 49, 84, 48, 48, 58, 48, 48, 58, 48, 48, 46, 48, 48, 48, 90>>

EffD(m) == EffDst(m.pgn, m.dst)
Render(m) ==
  [ebyte   |-> MapF(m, EByteRender),
   usb     |-> MapF(m, UsbRender),
   ydRU    |-> MapF(m, LAMBDA f : YdReceive(f, T1, 82, TRUE)),
   ydTL    |-> MapF(m, LAMBDA f : YdReceive(f, T2, 84, FALSE)),
   plainF1 |-> MapF(m, LAMBDA f : Plain(P1, m.src, EffD(m), m.prio, EffPgn(m.pgn), f.data, TRUE)),
   plainF2 |-> MapF(m, LAMBDA f : Plain(P2, m.src, EffD(m), m.prio, EffPgn(m.pgn), f.data, FALSE)),
   actiU   |-> <<ActisenseReceive(A1, m.src, EffD(m), m.prio, EffPgn(m.pgn), m.payload, TRUE)>>,
   actiL   |-> <<ActisenseReceive(A2, m.src, EffD(m), m.prio, EffPgn(m.pgn), m.payload, FALSE)>>,
   plainM  |-> <<Plain(P1, m.src, EffD(m), m.prio, EffPgn(m.pgn), m.payload, TRUE)>>]

Emitted == [k \in 1..Len(In) |-> Render(In[k])]

----------------------------------------------------------------------------
\* C07 record: [obs |-> [format |-> observation]], observation = [ret, early, msg]
\*   ret "msg" | "none" | "err"; early = TRUE if a non-final frame already returned something
Formats == {"ebyte", "usb", "ydRU", "ydTL", "plainF1", "plainF2", "actiU", "actiL", "plainM"}
C07Verdict(r) ==
  LET bad == {f \in Formats : r.obs[f].ret # "msg"}
      early == {f \in Formats : r.obs[f].early}
      diff == {f \in Formats : r.obs[f].ret = "msg" /\ r.obs["plainM"].ret = "msg" /\ r.obs[f].msg # r.obs["plainM"].msg}
  IN
  IF bad # {} THEN [c |-> "not-decoded", f |-> CHOOSE f \in bad : TRUE]
  ELSE IF early # {} THEN [c |-> "returned-before-last-frame", f |-> CHOOSE f \in early : TRUE]
  ELSE IF diff # {} THEN [c |-> "differs-from-assembled", f |-> CHOOSE f \in diff : TRUE]
  ELSE [c |-> "ok", f |-> ""]

----------------------------------------------------------------------------
\* C06 record: [m (message), fmt, packets (byte sequences), tokens (per packet: numbers read from the
\*              text tokens, <<>> for binary formats), back ("msg"|"none"|"err"), orig / backmsg (projections of the original and
\*              of the decoded message), accepted (corruptions the decoder accepted)]
DataOf(m, k) == FrameData(m)[k]
C06Packet(r, k) ==
  LET p == r.packets[k] m == r.m IN
    CASE r.fmt = "ebyte" ->
           IF Len(p) # EByteSize THEN "ebyte.size"
           ELSE IF EByteParse(p).id # Ident(m) THEN "ebyte.identifier"
           ELSE IF EByteParse(p).data # DataOf(m, k) THEN "ebyte.data" ELSE "ok"
      [] r.fmt = "usb" ->
           IF Len(p) # UsbSize THEN "usb.size"
           ELSE IF ~UsbValid(p) THEN "usb.checksum"
           ELSE IF UsbParse(p).id # Ident(m) THEN "usb.identifier"
           ELSE IF UsbParse(p).data # DataOf(m, k) THEN "usb.data" ELSE "ok"
      [] r.fmt = "yd" ->
           IF ~YdLineOK(p) THEN "yd.line"
           ELSE IF r.tokens[k] # <<Ident(m)>> \o DataOf(m, k) THEN "yd.content" ELSE "ok"
      [] OTHER -> "ok"

C06Verdict(r) ==
  LET n == Len(r.packets)
      expected == IF r.fmt = "actisense" THEN 1 ELSE Len(FrameData(r.m))
      badp == {k \in 1..n : k <= expected /\ C06Packet(r, k) # "ok"}
  IN IF n # expected THEN "packets.count"
     ELSE IF badp # {} THEN C06Packet(r, CHOOSE k \in badp : \A j \in badp : k <= j)
     ELSE IF r.fmt = "actisense" /\ r.tokens[1] # <<ActisenseHdr(r.m.src, r.m.dst, r.m.prio), r.m.pgn>> \o r.m.payload
          THEN "actisense.content"
     ELSE IF r.back # "msg" THEN "roundtrip.not-decoded"
     ELSE IF r.orig # r.backmsg THEN "roundtrip.differs"
     ELSE IF Len(r.accepted) > 0 THEN "usb.corruption-accepted"
     ELSE "ok"

Result ==
  CASE IOEnv.MODE = "EMIT" -> Emitted
    [] IOEnv.MODE = "C07" ->
         LET idx == SelectSeq([k \in 1..Len(In) |-> k], LAMBDA k : C07Verdict(In[k]).c # "ok")
         IN [n |-> Len(In), bad |-> [j \in 1..Len(idx) |-> [k |-> idx[j], v |-> C07Verdict(In[idx[j]])]]]
    [] IOEnv.MODE = "C06" ->
         LET idx == SelectSeq([k \in 1..Len(In) |-> k], LAMBDA k : C06Verdict(In[k]) # "ok")
         IN [n |-> Len(In), bad |-> [j \in 1..Len(idx) |-> [k |-> idx[j], v |-> C06Verdict(In[idx[j]])]]]

VARIABLE done
Init == done = FALSE
Next == done = FALSE /\ done' = TRUE /\ JsonSerialize(IOEnv.OUT_FILE, Result)
Spec == Init /\ [][Next]_done
=============================================================================
