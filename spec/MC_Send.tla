------------------------------- MODULE MC_Send -------------------------------
(***************************************************************************)
(* B1 for C19: concurrent send() calls x every pattern of drain()          *)
(* suspending or not x a write failure at any packet x messages that       *)
(* cannot be encoded.  UseLock = TRUE is the code as repaired; with        *)
(* UseLock = FALSE (the code as found) TLC produces the interleaving.      *)
(***************************************************************************)
EXTENDS N2KSend, TLC

CONSTANTS Senders, Sizes, UseLock, MaxFail

VARIABLES pc, n, idx, wire, lock, st, failed, spawned, budget
vars == <<pc, n, idx, wire, lock, st, failed, spawned, budget>>
\* n[i] = 0: the message cannot be encoded

Init == /\ pc = [i \in Senders |-> "idle"] /\ n \in [Senders -> Sizes] /\ idx = [i \in Senders |-> 0]
        /\ wire = <<>> /\ lock = 0 /\ st = "C" /\ failed = {} /\ spawned = 0 /\ budget = MaxFail

\* the part of send() up to its first suspension, from the point where the lock (if any) is held
WriteLoop(i, k, pcs, w, f, s, sp, b, lk) ==
  \* write packet k; the write may fail; then drain: returns at once or suspends or fails
  \/ /\ b > 0 /\ s # "X"                  \* write() raises
     /\ pc' = [pcs EXCEPT ![i] = "done"] /\ wire' = w /\ failed' = f \cup {i} /\ st' = "D" /\ spawned' = sp + 1
     /\ budget' = b - 1 /\ lock' = (IF lk = i THEN 0 ELSE lk) /\ idx' = idx
  \/ /\ wire' = Append(w, <<i, k>>) /\ idx' = [idx EXCEPT ![i] = k]
     /\ pc' = [pcs EXCEPT ![i] = "drain"] /\ failed' = f /\ st' = s /\ spawned' = sp /\ budget' = b /\ lock' = lk

Call(i) ==
  /\ pc[i] = "idle"
  /\ IF n[i] = 0
     THEN /\ pc' = [pc EXCEPT ![i] = "done"] /\ UNCHANGED <<n, idx, wire, lock, st, failed, spawned, budget>>   \* ValueError: logged, nothing else
     ELSE IF UseLock /\ lock # 0
     THEN /\ pc' = [pc EXCEPT ![i] = "waitlock"] /\ UNCHANGED <<n, idx, wire, lock, st, failed, spawned, budget>>
     ELSE /\ WriteLoop(i, 1, pc, wire, failed, st, spawned, budget, IF UseLock THEN i ELSE lock) /\ UNCHANGED n

GotLock(i) ==
  /\ pc[i] = "waitlock" /\ lock = 0
  /\ WriteLoop(i, 1, pc, wire, failed, st, spawned, budget, i) /\ UNCHANGED n

\* drain() of packet idx[i] completes (at once or after back-pressure): next packet or done
Drained(i) ==
  /\ pc[i] = "drain"
  /\ \/ /\ idx[i] < n[i] /\ WriteLoop(i, idx[i] + 1, pc, wire, failed, st, spawned, budget, lock) /\ UNCHANGED n
     \/ /\ idx[i] = n[i] /\ pc' = [pc EXCEPT ![i] = "done"] /\ lock' = (IF lock = i THEN 0 ELSE lock)
        /\ UNCHANGED <<n, idx, wire, st, failed, spawned, budget>>
     \/ /\ budget > 0                       \* drain() raises
        /\ pc' = [pc EXCEPT ![i] = "done"] /\ failed' = failed \cup {i} /\ st' = "D" /\ spawned' = spawned + 1
        /\ budget' = budget - 1 /\ lock' = (IF lock = i THEN 0 ELSE lock) /\ UNCHANGED <<n, idx, wire>>

Next == \E i \in Senders : Call(i) \/ GotLock(i) \/ Drained(i)
Spec == Init /\ [][Next]_vars

Contiguous == BlocksOK(wire, n, failed, {}, {i \in Senders : pc[i] # "done"})
Harmless == \A i \in Senders : n[i] = 0 => (\A k \in 1..Len(wire) : wire[k][1] # i) /\ i \notin failed
WriteFault == (failed # {}) => (st = "D" /\ spawned >= Cardinality(failed))
NoFaultNoChange == (failed = {}) => (st = "C" /\ spawned = 0)
LockFree == (\A i \in Senders : pc[i] = "done") => lock = 0
=============================================================================
