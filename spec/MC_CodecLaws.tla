--------------------------- MODULE MC_CodecLaws ---------------------------
(***************************************************************************)
(* B1 for the codec layer: coherence of the oracle itself.  For every      *)
(* width W <= MaxW, signedness and code:                                   *)
(*   - the bit/sign-magnitude arithmetic of N2KBits agrees with TLC's      *)
(*     integers (TwosComplement, Unsigned, NegMag, SMLeq, MagDiff, Trim),  *)
(*   - slicing a payload returns exactly the bits that were placed,        *)
(*   - the sentinel is unique per (width, signedness) and is the largest   *)
(*     positive value,                                                     *)
(*   - ticks are strictly monotone in the code inside each sign half.      *)
(* No database is needed here (fields are synthetic).                      *)
(***************************************************************************)
EXTENDS N2KBits, TLC

CONSTANT MaxW

VARIABLES kind, w, signed, code, off, other, stage
vars == <<kind, w, signed, code, off, other, stage>>

\* staged choice so that TLC's workers share the work (initial states are processed by one thread)
Init == kind = "none" /\ w = 1 /\ signed = FALSE /\ code = 0 /\ off = 0 /\ other = 0 /\ stage = 0
Next ==
  \/ /\ stage = 0
     /\ kind' \in {"arith", "slice"} /\ w' \in 1..MaxW /\ signed' \in BOOLEAN
     /\ stage' = 1 /\ UNCHANGED <<code, off, other>>
  \/ /\ stage = 1 /\ kind = "arith"
     /\ code' \in 0..(Pow2(w) - 1)
     /\ stage' = 2 /\ UNCHANGED <<kind, w, signed, off, other>>
  \/ /\ stage = 1 /\ kind = "slice" /\ ~signed
     /\ code' \in 0..(Pow2(w) - 1) /\ off' \in {0, 3, 7, 8, 13} /\ other' \in {0, 1}
     /\ stage' = 2 /\ UNCHANGED <<kind, w, signed>>
Spec == Init /\ [][Next]_vars
Arith == stage = 2 /\ kind = "arith"
Slicing == stage = 2 /\ kind = "slice"

CodeBits == NatBits(code, w)
IntVal == IF signed /\ code >= Pow2(w - 1) THEN code - Pow2(w) ELSE code
SMVal(x) == IF x.neg THEN 0 - ToNat(x.mag) ELSE ToNat(x.mag)
Interp(c) == IF signed THEN TwosComplement(c) ELSE Unsigned(c)

InterpLaw == Arith => SMVal(Interp(CodeBits)) = IntVal
NormalLaw == Arith => LET x == Interp(CodeBits) IN x.mag = Trim(x.mag) /\ (x.mag = <<>> => ~x.neg)

\* place the code at bit offset off inside 4 bytes filled with `other`, slice it back
Payload ==
  LET bit(i) == IF i >= off /\ i < off + w THEN CodeBits[i - off + 1] ELSE other
      byte(b) == bit(8*b) + 2*bit(8*b+1) + 4*bit(8*b+2) + 8*bit(8*b+3)
                 + 16*bit(8*b+4) + 32*bit(8*b+5) + 64*bit(8*b+6) + 128*bit(8*b+7)
  IN [b \in 1..4 |-> byte(b - 1)]
SliceLaw == Slicing => Slice(Payload, off, w) = CodeBits
SliceBeyondEndLaw == Slicing => Slice(<<255>>, 8, w) = [k \in 1..w |-> 0]

\* order: comparing sign-magnitude values agrees with comparing integers (against every other code)
OrderLaw == Arith =>
  \A c2 \in 0..(Pow2(w) - 1) :
    LET b2 == NatBits(c2, w)
        v2 == IF signed /\ c2 >= Pow2(w - 1) THEN c2 - Pow2(w) ELSE c2
    IN /\ SMLeq(Interp(CodeBits), Interp(b2)) <=> (IntVal <= v2)
       /\ SMEq(Interp(CodeBits), Interp(b2)) <=> (code = c2)
       /\ (Interp(CodeBits).neg = Interp(b2).neg =>
             ToNat(MagDiff(Interp(CodeBits).mag, Interp(b2).mag))
               = (IF IntVal <= v2 THEN v2 - IntVal ELSE IntVal - v2))

SentinelCode == IF signed /\ w >= 4 THEN Pow2(w - 1) - 1 ELSE Pow2(w) - 1
IsSentinelBits(c) == IF signed /\ w >= 4 THEN c[w] = 0 /\ \A k \in 1..(w - 1) : c[k] = 1 ELSE AllOnes(c)
SentinelLaw == Arith =>
  /\ IsSentinelBits(CodeBits) <=> (code = SentinelCode)
  /\ (w >= 4 /\ code = SentinelCode) => \A c2 \in 0..(Pow2(w) - 1) :
        (IF signed /\ c2 >= Pow2(w - 1) THEN c2 - Pow2(w) ELSE c2) <= IntVal
=============================================================================
