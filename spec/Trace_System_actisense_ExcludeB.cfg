SPECIFICATION TSpec
CONSTANTS
  Format = "actisense"
  ChunkSizes = {0}
  Cfg <- ExcludeB
CHECK_DEADLOCK FALSE
