SPECIFICATION Spec
CONSTANTS
  Format = "yd"
  ChunkSizes = {0, 1, 7, 30, 41}
  Cfg <- ExcludeB
INVARIANT Transparent
INVARIANT Complete
INVARIANT SomethingExpected
PROPERTY InOrderOnce
CHECK_DEADLOCK FALSE
