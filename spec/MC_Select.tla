----------------------------- MODULE MC_Select -----------------------------
(***************************************************************************)
(* B1 for C08: N2KCodec!Select on the real database.                       *)
(* One state per (definition of a multi-definition PGN, fill bit); the     *)
(* payload carries the definition's own match values and `fill` everywhere *)
(* else.                                                                   *)
(*   Carries          a selected non-fallback definition's match values    *)
(*                    are in the payload                                   *)
(*   FillIndependent  bits outside match fields do not influence Select    *)
(*   FirstInOrder     no earlier non-fallback definition matches           *)
(* and, as facts about the database (printed, not required): definitions   *)
(* that their own match values do not select (shadowed by an earlier       *)
(* sibling with weaker match fields).                                      *)
(***************************************************************************)
EXTENDS N2KCodec

Multi == {i \in 1..NDefs : Len(DefsOfPgn(Defs[i].pgn)) > 1}

MatchFieldsAt(d, i) ==
  {k \in 1..Len(d.fields) : d.fields[k].match # -1 /\ Positioned(d.fields[k])
                             /\ i >= d.fields[k].off /\ i < d.fields[k].off + d.fields[k].len}
\* union of the match-field bit positions of all definitions of the PGN
IsMatchBit(pgn, i) ==
  \E j \in 1..Len(DefsOfPgn(pgn)) : MatchFieldsAt(Defs[DefsOfPgn(pgn)[j]], i) # {}

CanonBit(d, fill, i) ==
  LET S == MatchFieldsAt(d, i) IN
    IF S = {} THEN (IF IsMatchBit(d.pgn, i) THEN 0 ELSE fill)
    ELSE LET f == d.fields[CHOOSE k \in S : TRUE] IN IF i - f.off > 30 THEN 0 ELSE (f.match \div Pow2(i - f.off)) % 2
CanonPayload(d, fill) ==
  [b \in 1..12 |-> LET bit(j) == CanonBit(d, fill, 8 * (b - 1) + j) IN
      bit(0) + 2*bit(1) + 4*bit(2) + 8*bit(3) + 16*bit(4) + 32*bit(5) + 64*bit(6) + 128*bit(7)]

VARIABLES i, fill
vars == <<i, fill>>
\* i = 0 is a root state; the choice is a transition so that TLC's workers share the work
\* (two levels: one worker expands the root into 16 group states, the groups are expanded in parallel)
Init == i = 0 /\ fill = 0
Next == \/ i = 0 /\ fill = 0 /\ i' = 0 /\ fill' \in 1..16
        \/ i = 0 /\ fill > 0 /\ i' \in {j \in Multi : j % 16 = fill - 1} /\ fill' \in {0, 1}
Spec == Init /\ [][Next]_vars

Sel(f) == Select(Defs[i].pgn, CanonPayload(Defs[i], f))

Carries == i # 0 => LET s == Sel(fill) IN
  s # 0 => (Defs[s].fallback \/ MatchOK(Defs[s], CanonPayload(Defs[i], fill)))
FillIndependent == i # 0 => Sel(0) = Sel(1)
FirstInOrder == i # 0 => LET s == Sel(fill) c == DefsOfPgn(Defs[i].pgn) IN
  \A j \in 1..Len(c) :
     (~Defs[c[j]].fallback /\ MatchOK(Defs[c[j]], CanonPayload(Defs[i], fill)))
        => (s # 0 /\ ~Defs[s].fallback /\ s <= c[j])

\* database fact, reported (never fails): the definition's own match values select another one
ShadowReport ==
  (i # 0 /\ fill = 0 /\ ~Defs[i].fallback /\ Sel(0) # i) => PrintT(<<"shadowed", Defs[i].id>>)
ASSUME PrintT(<<"multi", Cardinality(Multi), Cardinality({Defs[j].pgn : j \in Multi})>>)
\* at most one fallback per PGN
ASSUME \A a, b \in Multi : (Defs[a].pgn = Defs[b].pgn /\ Defs[a].fallback /\ Defs[b].fallback) => a = b
=============================================================================
