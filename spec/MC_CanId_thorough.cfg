SPECIFICATION Spec
CONSTANTS
  Prios <- AllPrios
  His <- AllHis
  Srcs <- AllBytes
  TSrcs = {0, 165, 255}
  Dsts = {0, 35, 254, 255}
INVARIANT IdLaw
INVARIANT TupleLaw
CHECK_DEADLOCK FALSE
