SPECIFICATION Spec
CONSTANTS
  Format = "ebyte"
  ChunkSizes = {0, 1, 5, 13, 20, 27}
  Cfg <- ExcludeB
INVARIANT Transparent
INVARIANT Complete
INVARIANT SomethingExpected
PROPERTY InOrderOnce
CHECK_DEADLOCK FALSE
