--------------------------- MODULE MC_FP_Inverse ---------------------------
(***************************************************************************)
(* B1 for C03: one sender (one 3-bit counter for everything it sends, as   *)
(* encoder.py), several stream keys, frames delivered in order.            *)
(*   Shape     SegmentShape for the message being sent                     *)
(*   Inverse   the receiver returns nothing until the last frame of a      *)
(*             message and then exactly its payload                        *)
(*   Counter   consecutive messages carry different sequence counters      *)
(* A message on a stream may carry the same counter as that stream's       *)
(* previous message (8 other messages in between): still returned.         *)
(***************************************************************************)
EXTENDS N2KFastPacket

CONSTANTS Streams, Lens, MaxK
AllLens == 0..223

VARIABLES q,      \* sender's sequence counter
          k,      \* messages started so far
          s, L,   \* stream and length of the message in flight (s = 0: none)
          mq,     \* its sequence counter
          i,      \* frames of it fed so far
          buf, out, prevq
vars == <<q, k, s, L, mq, i, buf, out, prevq>>

Init == /\ q \in 0..7 /\ k = 0 /\ s = 0 /\ L = 0 /\ mq = 0 /\ i = 0
        /\ buf = [x \in Streams |-> None] /\ out = NoOut /\ prevq = -1

Start == /\ (s = 0 \/ i = NFrames(L)) /\ k < MaxK
         /\ s' \in Streams /\ L' \in Lens
         /\ k' = k + 1 /\ mq' = q /\ q' = NextSeq(q) /\ prevq' = (IF k = 0 THEN -1 ELSE mq)
         /\ i' = 0 /\ out' = NoOut /\ UNCHANGED buf

Feed == /\ s # 0 /\ i < NFrames(L)
        /\ LET r == Recv(buf[s], Segment(s, k, L, mq)[i + 1]) IN
             /\ buf' = [buf EXCEPT ![s] = r.buf] /\ out' = r.out
        /\ i' = i + 1 /\ UNCHANGED <<q, k, s, L, mq, prevq>>

Next == Start \/ Feed
Spec == Init /\ [][Next]_vars

Shape == s # 0 => SegmentShape(s, k, L, mq)
InverseLaw == (s # 0 /\ i >= 1) =>
             IF i < NFrames(L) THEN ~out.some
             ELSE out.some /\ out.payload = Payload(s, k, L)
Counter == s # 0 => mq # prevq
Forgets == (s # 0 /\ i = NFrames(L)) => buf[s] = None
=============================================================================
