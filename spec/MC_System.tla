------------------------------ MODULE MC_System ------------------------------
(* B1 for the composed system (part of C12): see N2KSystem. *)
EXTENDS N2KSystem
=============================================================================
