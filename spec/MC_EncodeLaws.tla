--------------------------- MODULE MC_EncodeLaws ---------------------------
(***************************************************************************)
(* B1 for C02/C09: the specification's encode-side operators against TLC   *)
(* integers, for every width <= MaxW, signedness, and requested value       *)
(* given in half-steps h (value = h/2 steps), h in -2^(w+1) .. 2^(w+1):     *)
(*   IncLaw     SMInc is +1                                                *)
(*   ReprLaw    Representable(f,t) <=> some non-sentinel code has ticks t  *)
(*   RoundLaw   AllowedTicks = the integers within half a step of h/2      *)
(*   InverseLaw every non-sentinel code c is the only allowed encoding of  *)
(*              its own ticks (decode then encode gives c back), and the   *)
(*              sentinel is never an allowed encoding of a number          *)
(* No database needed; N2KCodec is instantiated with an empty one.         *)
(***************************************************************************)
EXTENDS N2KCodec

CONSTANT MaxW
VARIABLES w, twos, h, stage
vars == <<w, twos, h, stage>>

Init == w = 1 /\ twos = FALSE /\ h = 0 /\ stage = 0
Next ==
  \/ stage = 0 /\ w' \in 1..MaxW /\ twos' \in BOOLEAN /\ h' = 0 /\ stage' = 1
  \/ stage = 1 /\ h' \in (0 - Pow2(w + 1))..Pow2(w + 1) /\ stage' = 2 /\ UNCHANGED <<w, twos>>
Spec == Init /\ [][Next]_vars

F == [len |-> w, twos |-> twos]
IntOf(x) == IF x.neg THEN 0 - ToNat(x.mag) ELSE ToNat(x.mag)
SMOf(n) == IF n < 0 THEN SM(TRUE, NatBits(0 - n, 12)) ELSE SM(FALSE, NatBits(n, 12))
CodeInt(c) == IF twos /\ c >= Pow2(w - 1) THEN c - Pow2(w) ELSE c
SentInt == IF twos /\ w >= 4 THEN Pow2(w - 1) - 1 ELSE Pow2(w) - 1
Codes == 0..(Pow2(w) - 1)

\* floor division that also works for negative numerators
FloorHalf(n) == IF n >= 0 THEN n \div 2 ELSE 0 - ((1 - n) \div 2)
Fl == FloorHalf(h)
Cls == IF h % 2 = 0 THEN "zero" ELSE "half"

Live == stage = 2
IncLaw == Live => IntOf(SMInc(SMOf(h))) = h + 1
ReprLaw == Live => (Representable(F, SMOf(h)) <=> \E c \in Codes : c # SentInt /\ CodeInt(c) = h)
RoundLaw == Live =>
  {IntOf(t) : t \in AllowedTicks(SMOf(Fl), Cls)} = {n \in (Fl - 1)..(Fl + 2) : 2 * n - h <= 1 /\ h - 2 * n <= 1}
InverseLaw == (Live /\ h = 0) =>
  \A c \in Codes :
    LET bits == NatBits(c, w) IN
      /\ (c # SentInt) =>
            /\ EncNumVerdict(F, bits, [k |-> "num", neg |-> CodeInt(c) < 0,
                                        mag |-> Trim(NatBits(IF CodeInt(c) < 0 THEN 0 - CodeInt(c) ELSE CodeInt(c), 12)),
                                        cls |-> "zero"]) = "ok"
            /\ \A c2 \in Codes \ {c} :
                 EncNumVerdict(F, NatBits(c2, w), [k |-> "num", neg |-> CodeInt(c) < 0,
                                        mag |-> Trim(NatBits(IF CodeInt(c) < 0 THEN 0 - CodeInt(c) ELSE CodeInt(c), 12)),
                                        cls |-> "zero"]) # "ok"
      /\ (c = SentInt) <=> (EncNumVerdict(F, bits, [k |-> "na", neg |-> FALSE, mag |-> <<>>, cls |-> "zero"]) = "ok")
=============================================================================
