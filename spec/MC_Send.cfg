SPECIFICATION Spec
CONSTANTS
  Senders = {1, 2, 3}
  Sizes = {0, 1, 3}
  UseLock = TRUE
  MaxFail = 1
INVARIANT Contiguous
INVARIANT Harmless
INVARIANT WriteFault
INVARIANT NoFaultNoChange
INVARIANT LockFree
CHECK_DEADLOCK FALSE
