SPECIFICATION TSpec
CONSTANTS
  Format = "ebyte"
  ChunkSizes = {0}
  Cfg <- ExcludeB
CHECK_DEADLOCK FALSE
