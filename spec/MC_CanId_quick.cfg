SPECIFICATION Spec
CONSTANTS
  Prios <- AllPrios
  His <- AllHis
  Srcs = {0, 165, 255}
  TSrcs = {0, 165, 255}
  Dsts = {35, 255}
INVARIANT IdLaw
INVARIANT TupleLaw
CHECK_DEADLOCK FALSE
