------------------------------ MODULE N2KSystem ------------------------------
(***************************************************************************)
(* The pieces composed: a sender (encoder: CAN identifier, fast-packet     *)
(* segmentation under its sequence counter, wire rendering), a byte        *)
(* transport that hands the bytes over in arbitrary reads, a gateway       *)
(* client (re-framing of the reads, parsing of packets and identifiers,    *)
(* the decoder with its filters, source map and reassembly buffers, the    *)
(* queue in front of the receive callback).                                *)
(*                                                                         *)
(*   N2KCanId!Build / Parse       identifier                               *)
(*   N2KFastPacket                NFrames, ChunkStart, ChunkLen (sender)   *)
(*   N2KWire                      EByteRender/Parse, UsbRender/Parse       *)
(*   N2KFraming!Read              the client's read-by-read re-framing     *)
(*   N2KDecoder!Step              filters, source map, reassembly (Recv)   *)
(*                                                                         *)
(* Statement checked: the wire is transparent - what the client delivers   *)
(* is, at every moment, a prefix of what the decoder model returns when it *)
(* is handed the sender's messages directly (no identifier, no bytes, no   *)
(* reads, fast-packet messages pre-assembled), and is all of it once the   *)
(* bytes have been read.  In particular frame-by-frame delivery equals     *)
(* pre-assembled delivery (C07) for every format and schedule explored.    *)
(*                                                                         *)
(* A script item is                                                        *)
(*   [k |-> "single", pgn ("A"|"B"), src, prio, data (<= 8 bytes)]         *)
(*   [k |-> "fast", src, prio, data (payload bytes, <= 223)]    (PGN "F")  *)
(*   [k |-> "claim", src, name (1..3), data (the 8 NAME bytes)]            *)
(*   [k |-> "unknown", src, data]                                          *)
(***************************************************************************)
EXTENDS N2KWire, N2KFraming, N2KDecoder, Json, IOUtils

CONSTANTS Format,        \* "ebyte" | "usb" | "yd" (frame-level) | "actisense" (carries whole messages)
          ChunkSizes,    \* sizes of the reads the transport may deliver (0 = everything that is in flight)
          Cfg            \* decoder configuration (as in N2KDecoder)

\* decoder configurations used by the model-checking and trace configurations
NoFilter == [mode |-> "none", nums |-> {}, ids |-> {}, mfrMode |-> "none", mfrs |-> {}, netmap |-> FALSE]
ExcludeB == [mode |-> "exclude", nums |-> {"B"}, ids |-> {}, mfrMode |-> "none", mfrs |-> {}, netmap |-> FALSE]
IncludeF == [mode |-> "include", nums |-> {}, ids |-> {"F"}, mfrMode |-> "exclude", mfrs |-> {"m2"}, netmap |-> FALSE]

DefaultScript ==
  << [k |-> "claim", src |-> 11, prio |-> 6, pgn |-> "CLAIM", name |-> 1, data |-> <<1, 2, 3, 4, 5, 6, 7, 8>>],
     [k |-> "single", src |-> 11, prio |-> 2, pgn |-> "A", name |-> 0, data |-> <<9, 16, 32, 0, 0, 0, 0, 252>>],
     [k |-> "fast", src |-> 12, prio |-> 6, pgn |-> "F", name |-> 0, data |-> <<16, 32, 0, 16, 32, 1, 2, 2, 3>>],
     [k |-> "single", src |-> 12, prio |-> 3, pgn |-> "B", name |-> 0, data |-> <<7, 17, 1, 32, 3, 250, 255, 255>>],
     [k |-> "unknown", src |-> 11, prio |-> 6, pgn |-> "U", name |-> 0, data |-> <<1, 2, 3>>],
     [k |-> "fast", src |-> 12, prio |-> 6, pgn |-> "F", name |-> 0, data |-> <<17, 32, 0, 16, 32, 1, 2>>] >>
Script == IF "SCRIPT_FILE" \in DOMAIN IOEnv THEN JsonDeserialize(IOEnv.SCRIPT_FILE) ELSE DefaultScript

PgnNum(kind) == CASE kind = "A" -> 127250 [] kind = "B" -> 130306 [] kind = "F" -> 128275
                  [] kind = "CLAIM" -> 60928 [] OTHER -> 159285
KindOfPgn(n) == CASE n = 127250 -> "A" [] n = 130306 -> "B" [] n = 128275 -> "F" [] n = 60928 -> "CLAIM" [] OTHER -> "U"
Disc == CASE Format = "ebyte" -> [kind |-> "fixed", N |-> 13, M1 |-> 0, M2 |-> 0]
          [] Format = "usb"   -> [kind |-> "marker", N |-> 20, M1 |-> 170, M2 |-> 85]
          [] Format \in {"yd", "actisense"} -> [kind |-> "lines", N |-> 0, M1 |-> 0, M2 |-> 0]
Stamp == <<48, 48, 58, 48, 48, 58, 48, 48, 46, 48, 48, 48>>          \* "00:00:00.000"
RenderFrame(fr) == CASE Format = "ebyte" -> EByteRender(fr) [] Format = "usb" -> UsbRender(fr)
                     [] Format = "yd" -> YdReceive(fr, Stamp, 82, TRUE)
ParsePacket(p) == CASE Format = "ebyte" -> EByteParse(p) [] Format = "usb" -> UsbParse(p) [] Format = "yd" -> YdParse(p)
PacketValid(p) == CASE Format = "ebyte" -> Len(p) = 13 [] Format = "usb" -> UsbValid(p) [] Format = "yd" -> YdValid(p)
                    [] Format = "actisense" -> ActisenseValid(p)
AStamp == <<65, 48, 48, 48, 48, 48, 48, 46, 48, 48, 48>>              \* "A000000.000"

----------------------------------------------------------------------------
(* the sender *)
FastData(m, q, i) ==     \* CAN data of frame i (0-based) of fast-packet message m under sequence counter q
  <<q * 32 + i>> \o (IF i = 0 THEN <<Len(m.data)>> ELSE <<>>)
    \o SubSeq(m.data, ChunkStart(i) + 1, ChunkStart(i) + ChunkLen(Len(m.data), i))
FramesOf(m, q) ==
  IF m.k = "fast"
  THEN [j \in 1..NFrames(Len(m.data)) |-> [id |-> Build(PgnNum("F"), m.src, 255, m.prio), data |-> FastData(m, q, j - 1)]]
  ELSE << [id |-> Build(PgnNum(m.pgn), m.src, 255, m.prio), data |-> m.data] >>
BytesOf(m, q) ==
  IF Format = "actisense"        \* the gateway has reassembled the message: one line per message
  THEN ActisenseReceive(AStamp, m.src, 255, m.prio, PgnNum(m.pgn), m.data, TRUE) \o <<CR, LF>>
  ELSE FlattenSeq([j \in 1..Len(FramesOf(m, q)) |-> RenderFrame(FramesOf(m, q)[j])])

\* the same message as the decoder model sees it when nothing is in between
DirectIn(m, q) ==
  CASE m.k = "single"  -> << [k |-> "single", pgn |-> m.pgn, src |-> m.src, tok |-> m.data] >>
    [] m.k = "claim"   -> << [k |-> "claim", src |-> m.src, name |-> m.name] >>
    [] m.k = "unknown" -> << [k |-> "unknown", src |-> m.src] >>
    [] m.k = "fast"    -> << [k |-> "whole", src |-> m.src, tok |-> m.data] >>     \* pre-assembled: frame-wise delivery
                                                                                     \* through the wire must equal it

(* the receiver: a packet as an input of the decoder model *)
NameOf(data) == LET S == {j \in 1..Len(Script) : Script[j].k = "claim" /\ Script[j].data = data}
                IN IF S = {} THEN 3 ELSE Script[CHOOSE j \in S : TRUE].name
InOfLine(p) ==            \* Actisense: a whole message per line
  LET a == ActisenseParse(p)
      kind == KindOfPgn(a.pgn)
  IN CASE kind \in {"A", "B"} -> [k |-> "single", pgn |-> kind, src |-> a.src, tok |-> a.payload]
       [] kind = "CLAIM"      -> [k |-> "claim", src |-> a.src, name |-> NameOf(a.payload)]
       [] kind = "F"          -> [k |-> "whole", src |-> a.src, tok |-> a.payload]
       [] OTHER               -> [k |-> "unknown", src |-> a.src]
InOfPacket(p) ==
  IF ~PacketValid(p) THEN [k |-> "bad"]
  ELSE IF Format = "actisense" THEN InOfLine(p)
  ELSE LET fr == ParsePacket(p)
           h == Parse(fr.id)
           kind == KindOfPgn(h.pgn)
       IN CASE kind \in {"A", "B"} -> [k |-> "single", pgn |-> kind, src |-> h.src, tok |-> fr.data]
            [] kind = "CLAIM"      -> [k |-> "claim", src |-> h.src, name |-> NameOf(fr.data)]
            [] kind = "F" -> IF fr.data = <<>> THEN [k |-> "bad"]
                             ELSE LET c == fr.data[1]
                                      first == c % 32 = 0
                                  IN IF first /\ Len(fr.data) < 2 THEN [k |-> "bad"]
                                     ELSE [k |-> "frame", src |-> h.src, seq |-> c \div 32, fc |-> c % 32,
                                           len |-> IF first THEN fr.data[2] ELSE 0,
                                           chunk |-> SubSeq(fr.data, IF first THEN 3 ELSE 2, Len(fr.data))]
            [] OTHER -> [k |-> "unknown", src |-> h.src]

RECURSIVE Run(_, _, _)
Run(st, ins, n) ==      \* the decoder model over inputs ins[n..]: final state and the messages returned, in order
  IF n > Len(ins) THEN [st |-> st, outs |-> <<>>]
  ELSE LET r == Step(Cfg, st, ins[n], FALSE)
           rest == Run(r.st, ins, n + 1)
       IN [st |-> rest.st, outs |-> (IF r.out.some THEN <<r.out>> ELSE <<>>) \o rest.outs]

----------------------------------------------------------------------------
VARIABLES nxt,        \* next script item to send
          q,          \* the sender's sequence counter
          wire,       \* bytes sent and not yet read
          held,       \* bytes the client holds back between reads
          dec,        \* the client's decoder
          queue,      \* decoded messages waiting for the receive callback
          delivered,  \* what the callback has seen
          direct,     \* a decoder model fed the messages directly ...
          expected,   \* ... and everything it returned
          ev          \* the step just taken (for replay)
vars == <<nxt, q, wire, held, dec, queue, delivered, direct, expected, ev>>

Init == /\ nxt = 1 /\ q = 0 /\ wire = <<>> /\ held = <<>> /\ dec = InitState /\ queue = <<>> /\ delivered = <<>>
        /\ direct = InitState /\ expected = <<>> /\ ev = [k |-> "init", n |-> 0]

Send == /\ nxt <= Len(Script)
        /\ LET m == Script[nxt]
               r == Run(direct, DirectIn(m, q), 1)
           IN /\ wire' = wire \o BytesOf(m, q)
              /\ q' = IF m.k = "fast" THEN NextSeq(q) ELSE q
              /\ direct' = r.st /\ expected' = expected \o r.outs
        /\ nxt' = nxt + 1 /\ ev' = [k |-> "send", n |-> nxt]
        /\ UNCHANGED <<held, dec, queue, delivered>>

ReadBytes(n) ==
  /\ wire # <<>> /\ n <= Len(wire)
  /\ LET take == IF n = 0 THEN Len(wire) ELSE n
         r == Read(Disc, held, SubSeq(wire, 1, take))
         ins == [j \in 1..Len(r.out) |-> InOfPacket(r.out[j])]
         d == Run(dec, ins, 1)
     IN /\ wire' = SubSeq(wire, take + 1, Len(wire)) /\ held' = r.rest
        /\ dec' = d.st /\ queue' = queue \o d.outs
        /\ ev' = [k |-> "read", n |-> take]
  /\ UNCHANGED <<nxt, q, delivered, direct, expected>>

Deliver == /\ queue # <<>> /\ delivered' = Append(delivered, Head(queue)) /\ queue' = Tail(queue)
           /\ ev' = [k |-> "deliver", n |-> 0]
           /\ UNCHANGED <<nxt, q, wire, held, dec, direct, expected>>

Next == Send \/ (\E n \in ChunkSizes : ReadBytes(n)) \/ Deliver
Spec == Init /\ [][Next]_vars

----------------------------------------------------------------------------
IsPrefixOf(a, b) == Len(a) <= Len(b) /\ a = SubSeq(b, 1, Len(a))
Transparent == IsPrefixOf(delivered \o queue, expected)
Complete == (nxt > Len(Script) /\ wire = <<>>) => (delivered \o queue = expected /\ held = <<>>)
InOrderOnce == [][delivered' = delivered \/ (Len(delivered') = Len(delivered) + 1 /\ IsPrefixOf(delivered, delivered'))]_vars
\* non-vacuity: the script makes the decoder return something
SomethingExpected == nxt > Len(Script) => Len(expected) >= 2
=============================================================================
