---------------------------- MODULE Trace_Framing ----------------------------
(***************************************************************************)
(* Validation of sessions recorded from the real gateway clients' receive  *)
(* paths against N2KFraming (C12, C20, re-framing clause of C06).          *)
(* record = [disc, chunks (the reads the transport delivered, in order),   *)
(*           packets (what the stream was built from), tokens (per packet: *)
(*           identity of the message a decoder with the same settings      *)
(*           returns for it, 0 = none), delivered (identities passed to    *)
(*           the receive callback, in order; -1 = not a sent message),     *)
(*           after (callbacks completed after each chunk, <<>> = not       *)
(*           sampled), spin (a read loop never yielded), held (bytes held  *)
(*           back after each chunk, <<>> = not sampled), cap]              *)
(***************************************************************************)
EXTENDS N2KFraming, Json, IOUtils, TLC

Recs == JsonDeserialize(IOEnv.IN_FILE)

RECURSIVE Flat(_)
Flat(ss) == IF ss = <<>> THEN <<>> ELSE ss[1] \o Flat(Tail(ss))
RECURSIVE Count(_, _)
Count(ss, k) == IF k = 0 THEN 0 ELSE Len(ss[k]) + Count(ss, k - 1)

\* position of a packet in the list the stream was built from (first unused equal one)
IndexFrom(packets, p, from) ==
  LET S == {k \in from..Len(packets) : packets[k] = p} IN
    IF S = {} THEN 0 ELSE CHOOSE x \in S : \A y \in S : x <= y

\* tokens of the packets emitted by the model, in order; the model's packets are matched to the
\* sent packets left to right (a packet the model emits that was not sent as such has token 0)
RECURSIVE TokensOf(_, _, _, _)
TokensOf(emitted, packets, tokens, from) ==
  IF emitted = <<>> THEN <<>>
  ELSE LET k == IndexFrom(packets, emitted[1], from) IN
    IF k = 0 THEN <<0>> \o TokensOf(Tail(emitted), packets, tokens, from)
    ELSE <<tokens[k]>> \o TokensOf(Tail(emitted), packets, tokens, k + 1)

NonZero(ts) == SelectSeq(ts, LAMBDA x : x # 0)

C12Verdict(r) ==
  LET per == FoldReads(r.disc, <<>>, r.chunks, 1)        \* packets per chunk according to the model
      em == Flat(per)
      want == NonZero(TokensOf(em, r.packets, r.tokens, 1))
  IN IF r.spin THEN "loop-monopolised"
     ELSE IF r.canonical /\ em # r.packets THEN "MACHINERY.stream-not-canonical"
     ELSE IF \E i \in 1..Len(r.delivered) : r.delivered[i] = -1 THEN "delivered-something-not-sent"
     ELSE IF \E i, j \in 1..Len(r.delivered) : i < j /\ r.delivered[i] = r.delivered[j] THEN "delivered-twice"
     ELSE IF Len(r.delivered) < Len(want) /\ r.delivered = SubSeq(want, 1, Len(r.delivered)) THEN "delivery-stopped"
     ELSE IF \E i \in 1..Len(want) : \A j \in 1..Len(r.delivered) : r.delivered[j] # want[i] THEN "message-lost"
     ELSE IF r.delivered # want THEN "wrong-order"
     ELSE IF r.after # <<>> /\ \E k \in 1..Len(r.chunks) :
               r.after[k] # Len(NonZero(TokensOf(Flat(SubSeq(per, 1, k)), r.packets, r.tokens, 1)))
          THEN "not-delivered-when-complete"
     ELSE IF r.held # <<>> /\ \E k \in 1..Len(r.held) : r.held[k] > r.cap THEN "held-back-unbounded"
     ELSE "ok"

----------------------------------------------------------------------------
\* C20: serial stream = segments [kind ("valid"|"corrupt"|"trunc"|"noise"), head, fill, n, tail, token]
\* (bytes of a segment = head \o fill repeated n times \o tail; long noise runs stay compact)
SegEdge(sg) == sg.head \o (IF sg.n > 0 THEN <<sg.fill, sg.fill>> ELSE <<>>) \o sg.tail
HasMarker(bs, M1, M2) == \E k \in 1..(Len(bs) - 1) : bs[k] = M1 /\ bs[k + 1] = M2
Disturbance(sg) == sg.kind \in {"corrupt", "trunc", "noise"}
\* the maximal run of disturbance segments directly before position i (as in MC_Resync)
RECURSIVE RunBefore(_, _)
RunBefore(segs, i) == IF i < 1 \/ ~Disturbance(segs[i]) THEN <<>> ELSE RunBefore(segs, i - 1) \o SegEdge(segs[i])
RECURSIVE RunStart(_, _)
RunStart(segs, i) == IF i < 1 \/ ~Disturbance(segs[i]) THEN i + 1 ELSE RunStart(segs, i - 1)
CtxBefore(segs, j) == IF j > 1 THEN LET e == SegEdge(segs[j - 1]) IN <<e[Len(e)]>> ELSE <<>>
\* the packet at i is preceded by nothing, or by noise that neither contains the start marker nor
\* completes one across its borders (the packet itself begins with the marker)
QuietBefore(segs, i, M1, M2) ==
  ~HasMarker(CtxBefore(segs, RunStart(segs, i - 1)) \o RunBefore(segs, i - 1) \o <<M1>>, M1, M2)
MayLose(segs, i, M1, M2) == RunBefore(segs, i - 1) # <<>> /\ ~QuietBefore(segs, i, M1, M2)

C20Verdict(r) ==
  LET valid == {i \in 1..Len(r.segs) : r.segs[i].kind = "valid"}
      toks == {r.segs[i].token : i \in valid}
      got == {r.delivered[j] : j \in 1..Len(r.delivered)}
      \* (unheard: packets complete before any receive callback was registered - nobody's; absent in older records)
      unheard == IF "unheard" \in DOMAIN r THEN {r.unheard[j] : j \in 1..Len(r.unheard)} ELSE {}
      missing == {i \in valid : r.segs[i].token \notin got /\ r.segs[i].token \notin unheard}
  IN IF r.spin THEN "loop-monopolised"
     ELSE IF \E j \in 1..Len(r.delivered) : r.delivered[j] \notin toks THEN "delivered-corrupt-or-unsent-packet"
     ELSE IF \E i, j \in 1..Len(r.delivered) : i < j /\ r.delivered[i] >= r.delivered[j] THEN "duplicate-or-out-of-order"
     ELSE IF \E i \in missing : QuietBefore(r.segs, i, r.disc.M1, r.disc.M2) THEN "lost-after-marker-free-noise"
     ELSE IF \E i \in missing : ~MayLose(r.segs, i, r.disc.M1, r.disc.M2) THEN "lost-more-than-the-first-packet-after-noise"
     ELSE IF \E k \in 1..Len(r.held) : r.held[k] > r.cap THEN "held-back-unbounded"
     ELSE "ok"

\* conformance with the framing model (DRIFT only): what MarkerReadB emits for these reads
C20Model(r) ==
  LET em == Flat(FoldReads(r.disc, <<>>, r.chunks, 1)) IN NonZero(TokensOf(em, r.packets, r.tokens, 1))

Verdict(r) == IF IOEnv.MODE = "C20" THEN C20Verdict(r) ELSE C12Verdict(r)
Unheard(r) == IF "unheard" \in DOMAIN r THEN {r.unheard[j] : j \in 1..Len(r.unheard)} ELSE {}
Drift(r) == IOEnv.MODE = "C20" /\ r.chunks # <<>> /\ SelectSeq(C20Model(r), LAMBDA t : t \notin Unheard(r)) # r.delivered

Verdicts ==
  LET idx == SelectSeq([k \in 1..Len(Recs) |-> k], LAMBDA k : Verdict(Recs[k]) # "ok")
      dr == SelectSeq([k \in 1..Len(Recs) |-> k], LAMBDA k : Drift(Recs[k]))
  IN [n |-> Len(Recs), bad |-> [j \in 1..Len(idx) |-> [k |-> idx[j], c |-> Verdict(Recs[idx[j]])]], drift |-> dr]

VARIABLE done
Init == done = FALSE
Next == done = FALSE /\ done' = TRUE /\ JsonSerialize(IOEnv.OUT_FILE, Verdicts)
Spec == Init /\ [][Next]_done
=============================================================================
