SPECIFICATION Spec
CONSTANT MaxW = 9
INVARIANT IncLaw
INVARIANT ReprLaw
INVARIANT RoundLaw
INVARIANT InverseLaw
CHECK_DEADLOCK FALSE
