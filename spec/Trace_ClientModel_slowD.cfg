INIT TInit
NEXT TNext
CONSTANTS
  NC = 6
  NU = 2
  MaxConn = 8
  MaxRefuse = 8
  MaxFeed = 12
  MaxEof = 4
  SlowSet = {"D"}
  CfgWrite = FALSE
  NCl = 2
  MaxSend = 2
CONSTRAINT Progress
POSTCONDITION Post
CHECK_DEADLOCK FALSE
