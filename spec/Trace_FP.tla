------------------------------ MODULE Trace_FP ------------------------------
(***************************************************************************)
(* Trace validation for the fast-packet receiver (C03, C04, C16).          *)
(* IN_FILE: a sequence of traces; a trace is a sequence of events          *)
(*   [s, seq, fc, len, chunk, obs ("none"|"msg"|"err"), payload]           *)
(* recorded while the real decoder was fed concrete frames: s = stream     *)
(* key (small integer), chunk = data bytes after the counter (and length)  *)
(* byte, payload = the payload bytes the returned message carries.         *)
(*                                                                         *)
(* Every event is one step of N2KFastPacket!Recv on the stream's buffer;   *)
(* what the step returns must be what was observed.  A mismatch is         *)
(* recorded (trace, event, clause) and validation goes on from the         *)
(* model's state, so verdicts are total.                                   *)
(***************************************************************************)
EXTENDS N2KFastPacket, Json, IOUtils

Traces == JsonDeserialize(IOEnv.IN_FILE)
NStreams == 8

VARIABLES t, l, tbuf, bad
vars == <<t, l, tbuf, bad>>

Init == t = 1 /\ l = 1 /\ tbuf = [s \in 1..NStreams |-> None] /\ bad = <<>>

Event == Traces[t][l]
Clause(e, r) ==
  IF ~r.out.some THEN (IF e.obs = "none" THEN "ok"
                        ELSE IF e.obs = "msg" THEN "unexpected-output" ELSE "error-raised")
  ELSE IF e.obs = "none" THEN "missing-output"
  ELSE IF e.obs = "err" THEN "error-raised"
  ELSE IF e.payload = r.out.payload THEN "ok" ELSE "wrong-payload"

Step ==
  /\ t <= Len(Traces) /\ l <= Len(Traces[t])
  /\ LET e == Event
         r == Recv(tbuf[e.s], [seq |-> e.seq, fc |-> e.fc, len |-> e.len, chunk |-> e.chunk])
         c == Clause(e, r)
     IN /\ tbuf' = [tbuf EXCEPT ![e.s] = r.buf]
        /\ bad' = IF c = "ok" THEN bad ELSE Append(bad, [t |-> t, l |-> l, c |-> c])
  /\ l' = l + 1 /\ t' = t

NextTrace ==
  /\ t <= Len(Traces) /\ l > Len(Traces[t])
  /\ t' = t + 1 /\ l' = 1 /\ tbuf' = [s \in 1..NStreams |-> None] /\ bad' = bad

Finish ==
  /\ t = Len(Traces) + 1 /\ l = 1
  /\ JsonSerialize(IOEnv.OUT_FILE, [n |-> Len(Traces), bad |-> bad])
  /\ t' = t + 1 /\ UNCHANGED <<l, tbuf, bad>>

Next == Step \/ NextTrace \/ Finish
Spec == Init /\ [][Next]_vars
=============================================================================
