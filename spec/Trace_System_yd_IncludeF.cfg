SPECIFICATION TSpec
CONSTANTS
  Format = "yd"
  ChunkSizes = {0}
  Cfg <- IncludeF
CHECK_DEADLOCK FALSE
