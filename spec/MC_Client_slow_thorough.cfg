SPECIFICATION Spec
CONSTANTS
  NC = 5
  NU = 2
  MaxConn = 6
  MaxRefuse = 3
  MaxFeed = 2
  MaxEof = 3
  SlowSet = {"C", "D", "X"}
  CfgWrite = FALSE
  NCl = 1
  MaxSend = 1
INVARIANT MonitorQuiet
INVARIANT OneReceivePath
INVARIANT LockDiscipline
INVARIANT NeverStuck
INVARIANT AllShut
PROPERTY ClosedFinal
CHECK_DEADLOCK FALSE
