------------------------------ MODULE MC_Resync ------------------------------
(***************************************************************************)
(* B1 for C20: the marker discipline of N2KFraming on streams built from   *)
(* valid packets, corrupted packets, truncated packets and noise runs, in  *)
(* a small world: N = 4 (marker AA 55, one data byte d, checksum d + 100,  *)
(* which no noise byte can fake), data bytes 1..9 identify the packet.     *)
(*   a window is "delivered" when its checksum matches (decode_usb)        *)
(* Clauses of the property, checked on every stream of up to K segments:   *)
(*   NoBadChecksum, InOrderOnce, NoLossMarkerFree, AtMostOne, Bounded      *)
(* (Independence of the read boundaries is MC_Framing's ChunkIndependent.) *)
(***************************************************************************)
EXTENDS N2KFraming, TLC

CONSTANT K
M1 == 170
M2 == 85
N == 4
D == [kind |-> "marker", N |-> N, M1 |-> M1, M2 |-> M2]

NoiseRuns == UNION {[1..n -> {M1, M2, 7}] : n \in 1..3}
Seg(kind, bytes, tok) == [kind |-> kind, bytes |-> bytes, token |-> tok]
Sum(d) == d + 100
Valid(i) == Seg("valid", <<M1, M2, i, Sum(i)>>, i)
SegChoices(i) ==
  {Valid(i), Seg("corrupt", <<M1, M2, i, Sum(i) + 1>>, 0)}
  \cup {Seg("trunc", SubSeq(<<M1, M2, i, Sum(i)>>, 1, n), 0) : n \in 1..3}
  \cup {Seg("trunc", <<M1, i, Sum(i)>>, 0), Seg("trunc", <<M1, M2, i>>, 0)}      \* a byte lost inside
  \cup {Seg("noise", nz, 0) : nz \in NoiseRuns}

VARIABLES segs
Init == segs = <<>>
Next == Len(segs) < K /\ \E sg \in SegChoices(Len(segs) + 1) : segs' = Append(segs, sg)
Spec == Init /\ [][Next]_segs

RECURSIVE FlatB(_)
FlatB(ss) == IF ss = <<>> THEN <<>> ELSE ss[1].bytes \o FlatB(Tail(ss))
Stream == FlatB(segs)
Windows == Whole(D, Stream)
Delivered == SelectSeq(Windows, LAMBDA w : w[4] = Sum(w[3]))          \* checksum accepted
Got == {Delivered[k][3] : k \in 1..Len(Delivered)}

ValidIdx == {i \in 1..Len(segs) : segs[i].kind = "valid"}
HasMarker(bs) == \E k \in 1..(Len(bs) - 1) : bs[k] = M1 /\ bs[k + 1] = M2
Disturbance(i) == segs[i].kind \in {"corrupt", "trunc", "noise"}
\* the maximal run of disturbance segments directly before position i, as one byte string
RECURSIVE RunBefore(_)
RunBefore(i) == IF i < 1 \/ ~Disturbance(i) THEN <<>> ELSE RunBefore(i - 1) \o segs[i].bytes
RECURSIVE RunStart(_)
RunStart(i) == IF i < 1 \/ ~Disturbance(i) THEN i + 1 ELSE RunStart(i - 1)       \* index of its first segment
CtxBefore(j) == IF j > 1 THEN <<segs[j - 1].bytes[Len(segs[j - 1].bytes)]>> ELSE <<>>
\* a valid packet at i is preceded by noise that neither contains the marker nor forms one at its borders
QuietBefore(i) == ~HasMarker(CtxBefore(RunStart(i - 1)) \o RunBefore(i - 1) \o <<M1>>)
MayLose(i) == RunBefore(i - 1) # <<>> /\ ~QuietBefore(i)

NoBadChecksum == \A k \in 1..Len(Delivered) : \E i \in ValidIdx : segs[i].bytes = Delivered[k]
InOrderOnce == \A a, b \in 1..Len(Delivered) : a < b => Delivered[a][3] < Delivered[b][3]
NoLossMarkerFree == \A i \in ValidIdx : QuietBefore(i) => i \in Got
AtMostOne == \A i \in ValidIdx : i \notin Got => MayLose(i)
Bounded == Len(Read(D, <<>>, Stream).rest) < N
=============================================================================
