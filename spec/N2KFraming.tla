------------------------------ MODULE N2KFraming ------------------------------
(***************************************************************************)
(* Re-framing of a received byte stream into packets: the three            *)
(* disciplines of the gateway clients' receive paths (ioclient.py).        *)
(*   Fixed(N)   EByte: readexactly(13)                                     *)
(*   Lines      Actisense / Yacht Devices: readline()                      *)
(*   Marker(N)  Waveshare serial: hold-back buffer, two-byte start marker, *)
(*              windows of N bytes                                         *)
(* Each discipline is a state machine consuming chunks (one read = one     *)
(* chunk): state = bytes held back, output = packets emitted by the read.  *)
(***************************************************************************)
EXTENDS Integers, Sequences, FiniteSets

----------------------------------------------------------------------------
(* Fixed-size packets *)
RECURSIVE FixedCut(_, _)
FixedCut(buf, N) == IF Len(buf) < N THEN [out |-> <<>>, rest |-> buf]
                    ELSE LET r == FixedCut(SubSeq(buf, N + 1, Len(buf)), N) IN
                           [out |-> <<SubSeq(buf, 1, N)>> \o r.out, rest |-> r.rest]
FixedRead(held, chunk, N) == FixedCut(held \o chunk, N)

----------------------------------------------------------------------------
(* Lines terminated by LF *)
RECURSIVE LineCut(_)
LineCut(buf) ==
  LET nl == {k \in 1..Len(buf) : buf[k] = 10} IN
    IF nl = {} THEN [out |-> <<>>, rest |-> buf]
    ELSE LET k == CHOOSE x \in nl : \A y \in nl : x <= y
             r == LineCut(SubSeq(buf, k + 1, Len(buf)))
         IN [out |-> <<SubSeq(buf, 1, k)>> \o r.out, rest |-> r.rest]
LineRead(held, chunk) == LineCut(held \o chunk)

----------------------------------------------------------------------------
(* Marker + N window (WaveShareNmea2000Gateway._receive_impl) *)
MarkerAt(buf, k, M1, M2) == k + 1 <= Len(buf) /\ buf[k] = M1 /\ buf[k + 1] = M2
FirstMarker(buf, M1, M2) ==
  LET S == {k \in 1..Len(buf) : MarkerAt(buf, k, M1, M2)} IN
    IF S = {} THEN 0 ELSE CHOOSE x \in S : \A y \in S : x <= y
RECURSIVE MarkerCut(_, _, _, _)
MarkerCut(buf, N, M1, M2) ==
  LET st == FirstMarker(buf, M1, M2) IN
    IF st = 0 THEN [out |-> <<>>, rest |-> buf]
    ELSE IF st + N - 1 > Len(buf) THEN [out |-> <<>>, rest |-> buf]
    ELSE LET r == MarkerCut(SubSeq(buf, st + N, Len(buf)), N, M1, M2) IN
           [out |-> <<SubSeq(buf, st, st + N - 1)>> \o r.out, rest |-> r.rest]
MarkerRead(held, chunk, N, M1, M2) == MarkerCut(held \o chunk, N, M1, M2)

\* the part of a hold-back buffer that can still matter: from the first marker on, or a final
\* byte that may be the first half of a marker (what a bounded implementation needs to keep)
Essential(buf, M1, M2) ==
  LET st == FirstMarker(buf, M1, M2) IN
    IF st # 0 THEN SubSeq(buf, st, Len(buf))
    ELSE IF buf # <<>> /\ buf[Len(buf)] = M1 THEN <<M1>> ELSE <<>>
\* the bounded receive step: same output, but only the essential part is held back
MarkerReadB(held, chunk, N, M1, M2) ==
  LET r == MarkerCut(held \o chunk, N, M1, M2) IN [out |-> r.out, rest |-> Essential(r.rest, M1, M2)]

----------------------------------------------------------------------------
(* One read under discipline d = [kind, N, M1, M2] *)
Read(d, held, chunk) ==
  CASE d.kind = "fixed"  -> FixedRead(held, chunk, d.N)
    [] d.kind = "lines"  -> LineRead(held, chunk)
    [] d.kind = "marker" -> MarkerReadB(held, chunk, d.N, d.M1, d.M2)
Whole(d, stream) == Read(d, <<>>, stream).out

\* packets emitted after each of a sequence of chunks (cumulative), by folding Read
RECURSIVE FoldReads(_, _, _, _)
FoldReads(d, held, chunks, k) ==
  IF k > Len(chunks) THEN <<>>
  ELSE LET r == Read(d, held, chunks[k]) IN <<r.out>> \o FoldReads(d, r.rest, chunks, k + 1)
=============================================================================
