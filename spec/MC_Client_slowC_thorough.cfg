SPECIFICATION Spec
CONSTANTS
  NC = 4
  NU = 2
  MaxConn = 4
  MaxRefuse = 2
  MaxFeed = 1
  MaxEof = 2
  SlowSet = {"C"}
INVARIANT MonitorQuiet
INVARIANT OneReceivePath
INVARIANT LockDiscipline
INVARIANT NeverStuck
INVARIANT AllShut
PROPERTY ClosedFinal
CHECK_DEADLOCK FALSE
