SPECIFICATION Spec
INVARIANT Carries
INVARIANT FillIndependent
INVARIANT FirstInOrder
INVARIANT ShadowReport
CHECK_DEADLOCK FALSE
