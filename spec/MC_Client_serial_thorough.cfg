SPECIFICATION Spec
CONSTANTS
  NC = 4
  NU = 2
  MaxConn = 5
  MaxRefuse = 3
  MaxFeed = 2
  MaxEof = 2
  SlowSet = {}
  CfgWrite = TRUE
  NCl = 1
  MaxSend = 1
INVARIANT MonitorQuiet
INVARIANT OneReceivePath
INVARIANT LockDiscipline
INVARIANT NeverStuck
INVARIANT AllShut
PROPERTY ClosedFinal
CHECK_DEADLOCK FALSE
