SPECIFICATION Spec
CONSTANT MaxW = 10
INVARIANT InterpLaw
INVARIANT NormalLaw
INVARIANT SliceLaw
INVARIANT SliceBeyondEndLaw
INVARIANT OrderLaw
INVARIANT SentinelLaw
CHECK_DEADLOCK FALSE
