SPECIFICATION TSpec
CONSTANTS
  Format = "ebyte"
  ChunkSizes = {0}
  Cfg <- NoFilter
CHECK_DEADLOCK FALSE
