SPECIFICATION TSpec
CONSTANTS
  Format = "yd"
  ChunkSizes = {0}
  Cfg <- NoFilter
CHECK_DEADLOCK FALSE
