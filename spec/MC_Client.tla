------------------------------ MODULE MC_Client ------------------------------
(* B1 for C13/C14: N2KClient with small constants; the monitor of N2KClientMon rides along. *)
EXTENDS N2KClient
\* history-free view is not needed: mon is small and part of the state
=============================================================================
