SPECIFICATION Spec
CONSTANTS
  NC = 4
  NU = 2
  MaxConn = 4
  MaxRefuse = 2
  MaxFeed = 2
  MaxEof = 2
  SlowSet = {}
  CfgWrite = FALSE
  NCl = 2
  MaxSend = 1
INVARIANT MonitorQuiet
INVARIANT OneReceivePath
INVARIANT LockDiscipline
INVARIANT NeverStuck
INVARIANT AllShut
PROPERTY ClosedFinal
CHECK_DEADLOCK FALSE
