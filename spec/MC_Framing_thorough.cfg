SPECIFICATION Spec
CONSTANTS
  MaxLen = 9
  Alphabet = {10, 65, 85, 170}
  Discs <- QuickDiscs
INVARIANT ChunkIndependent
INVARIANT SameAsUnbounded
INVARIANT Bounded
INVARIANT Shape
CHECK_DEADLOCK FALSE
