SPECIFICATION Spec
CONSTANTS
  MaxLen = 14
  Srcs = {1, 2, 3}
  PgnLists <- AllLists
  CfgSet <- C16Cfgs
  FLen = 14
CHECK_DEADLOCK FALSE
