------------------------------ MODULE N2KClient ------------------------------
(***************************************************************************)
(* The asyncio gateway client (ioclient.py: AsyncIOClient and subclasses)  *)
(* at the granularity of its suspension points: one action = the code a    *)
(* coroutine runs between two awaits that really suspend.                  *)
(*                                                                         *)
(*   connect()       CStart / CAttempt (Open) .. COpened .. CAfterCb ..    *)
(*                   CSpawn, back-off between refused attempts             *)
(*   _receive_loop   RStart / RPacket / RFault / RCancelled / RAfterCb     *)
(*   _process_queue  PGet / PCancelled                                     *)
(*   close()         CallClose / CloseBody / ClosePq / wake-ups            *)
(*   environment     gateway accepts / refuses, feeds packets, ends the    *)
(*                   stream; the user calls connect() and close() at any   *)
(*                   time                                                  *)
(*   send()          SendStart (write, suspended in drain()) / SendOk /    *)
(*                   SendFail (the fault handler: unless CLOSED, report    *)
(*                   DISCONNECTED and spawn a connect())                   *)
(* The event loop is cooperative: timers (sleeps, slow callbacks) fire     *)
(* only when no task is ready to run, earliest first.                      *)
(*                                                                         *)
(* Every action reports the events an observer at the boundary would see   *)
(* to the monitor of N2KClientMon (the properties C13 / C14).              *)
(***************************************************************************)
EXTENDS Integers, Sequences, FiniteSets, N2KClientMon, TLC

CONSTANTS NC,          \* connect() coroutine instances (1..NU are user calls, the rest are spawned)
          NU,
          MaxConn,     \* connection attempts the gateway sees
          MaxRefuse, MaxFeed, MaxEof,
          SlowSet,     \* the states ("C", "D", "X") whose status callback suspends; the others return at once
          MaxSend,     \* send() calls over a behaviour (the user's, and the client's own requests after a connection)
          NCl,         \* close() calls the user makes (1, or 2: a second call while the first is still at work, or after the
                       \* first was abandoned by its caller inside its suspending CLOSED notification)
          CfgWrite     \* TRUE: the serial client, whose connect attempt writes a configuration packet to the freshly
                       \* opened port (WaveShareNmea2000Gateway._connect_impl); a failing write fails the attempt

Conns == 1..MaxConn
Insts == 1..NC
Closers == 1..NCl

VARIABLES st, lock, cpc, ck, cconn, cwake, cs, nconn, writer,
          rpc, rcancel, rconn, rwake, avail, q, ppc, pcancel,
          clpc, clwake, now, mon, refusals, feeds, eofs, spawned,
          nsent,              \* send() calls made so far
          spc, sconn, swake   \* send(): "idle" | "drain" (suspended after a write on link sconn) | "cb" (in the
                              \* suspending DISCONNECTED callback of its fault handler, until swake)
vars == <<st, lock, cpc, ck, cconn, cwake, cs, nconn, writer, rpc, rcancel, rconn, rwake, avail, q, ppc, pcancel,
          clpc, clwake, now, mon, refusals, feeds, eofs, spawned, spc, sconn, swake, nsent>>

sendvars == <<spc, sconn, swake, nsent>>

StName(s) == CASE s = "D" -> "DISCONNECTED" [] s = "C" -> "CONNECTED" [] s = "X" -> "CLOSED"
E(e, s, t, k, sv, conn, r) == [e |-> e, st |-> StName(s), t |-> t, k |-> k, s |-> sv, conn |-> conn, r |-> r]
Delay(k) == LET d == CASE k = 1 -> 500 [] k = 2 -> 1000 [] k = 3 -> 2000 [] k = 4 -> 4000 [] k = 5 -> 8000 [] OTHER -> 10000
            IN d
CbPause == 300

Init ==
  /\ st = "D" /\ lock = FALSE
  /\ cpc = [i \in Insts |-> "idle"] /\ ck = [i \in Insts |-> 0] /\ cconn = [i \in Insts |-> 0]
  /\ cwake = [i \in Insts |-> -1]
  /\ cs = [c \in Conns |-> "none"] /\ nconn = 0 /\ writer = 0
  /\ rpc = [c \in Conns |-> "none"] /\ rcancel = [c \in Conns |-> FALSE] /\ rconn = [c \in Conns |-> 0]
  /\ rwake = [c \in Conns |-> -1] /\ avail = [c \in Conns |-> 0]
  /\ q = 0 /\ ppc = "get" /\ pcancel = FALSE
  /\ clpc = [j \in Closers |-> "none"] /\ clwake = [j \in Closers |-> -1] /\ now = 0 /\ mon = MonInit
  /\ refusals = 0 /\ feeds = 0 /\ eofs = 0 /\ spawned = NU
  /\ spc = "idle" /\ sconn = 0 /\ swake = -1 /\ nsent = 0

\* mon.last = the events of this step (what a trace of the real client is matched against)
Emit(evs) == mon' = [MonRun(mon, evs, 1) EXCEPT !.last = evs]
AliveR == {c \in Conns : rpc[c] \in {"start", "reading", "cbDisc"}}
Done(i) == [cpc EXCEPT ![i] = "done"]
RetEv(i, s) == IF i <= NU THEN <<E("RetConnect", s, now, 0, "", 0, "")>> ELSE <<>>

----------------------------------------------------------------------------
(* connect() *)

\* from "attempt": either the client is closed, or the next open attempt is issued
Attempt(i, evs0) ==
  IF st = "X"
  THEN /\ cpc' = Done(i) /\ lock' = FALSE /\ Emit(evs0 \o RetEv(i, st))
       /\ UNCHANGED <<cs, nconn, cconn>>
  ELSE /\ nconn < MaxConn
       /\ nconn' = nconn + 1 /\ cs' = [cs EXCEPT ![nconn + 1] = "pending"]
       /\ cconn' = [cconn EXCEPT ![i] = nconn + 1] /\ cpc' = [cpc EXCEPT ![i] = "opening"]
       /\ lock' = TRUE
       /\ Emit(evs0 \o <<E("Open", st, now, nconn + 1, "", 0, "")>>)

\* the code of connect() up to its first suspension
StartBlock(i, evs0) ==
  IF st = "X" \/ lock
  THEN /\ cpc' = Done(i) /\ Emit(evs0 \o RetEv(i, st)) /\ UNCHANGED <<lock, cs, nconn, cconn>>
  ELSE IF st = "C"
  THEN /\ cpc' = Done(i) /\ Emit(evs0 \o RetEv(i, st)) /\ UNCHANGED <<lock, cs, nconn, cconn>>
  ELSE Attempt(i, evs0)

UserConnect(i) ==
  /\ UNCHANGED sendvars
  /\ i <= NU /\ cpc[i] = "idle"
  /\ StartBlock(i, <<E("CallConnect", st, now, 0, "", 0, "")>>)
  /\ UNCHANGED <<st, ck, cwake, writer, rpc, rcancel, rconn, rwake, avail, q, ppc, pcancel, clpc, clwake, now,
                 refusals, feeds, eofs, spawned>>

SpawnedStart(i) ==
  /\ UNCHANGED sendvars
  /\ cpc[i] = "spawned"
  /\ StartBlock(i, <<>>)
  /\ UNCHANGED <<st, ck, cwake, writer, rpc, rcancel, rconn, rwake, avail, q, ppc, pcancel, clpc, clwake, now,
                 refusals, feeds, eofs, spawned>>

\* a successful attempt, in the order of the code:
\*   adopt the new link; cancel the receive task of the previous link and pause 10 ms; if the client
\*   was closed meanwhile shut the new link and stop; report CONNECTED (callback may suspend); start
\*   the new receive task; release the lock
SpawnBlock(i, c, evs, s2) ==
  /\ rpc' = [rpc EXCEPT ![c] = "start"] /\ lock' = FALSE /\ cpc' = Done(i)
  /\ Emit(evs \o [k \in 1..Len(RetEv(i, s2)) |-> [RetEv(i, s2)[k] EXCEPT !.t = now']])
\* (now' is the time of the step: these blocks are also entered from timers)
StateBlock(i, c, evs0, cw) ==
  IF st = "X"
  THEN /\ cs' = [cs EXCEPT ![c] = "shut"] /\ lock' = FALSE /\ cpc' = Done(i)
       /\ Emit(evs0 \o (IF cs[c] # "shut" THEN <<E("WriterClose", st, now', 0, "", c, "")>> ELSE <<>>)
                 \o [k \in 1..Len(RetEv(i, st)) |-> [RetEv(i, st)[k] EXCEPT !.t = now']])
       /\ cwake' = cw /\ UNCHANGED <<st, rpc>>
  ELSE /\ st' = "C" /\ UNCHANGED cs
       /\ LET evs == evs0 \o (IF st # "C" THEN <<E("Status", "C", now', 0, "CONNECTED", 0, "")>> ELSE <<>>) IN
            IF "C" \in SlowSet /\ st # "C"
            THEN /\ cpc' = [cpc EXCEPT ![i] = "cbConn"] /\ cwake' = [cw EXCEPT ![i] = now' + CbPause]
                 /\ Emit(evs) /\ UNCHANGED <<rpc, lock>>
            ELSE /\ SpawnBlock(i, c, evs, "C") /\ cwake' = cw

COpened(i) ==
  /\ UNCHANGED sendvars
  /\ cpc[i] = "opening" /\ cs[cconn[i]] \in {"open", "eof"}
  /\ UNCHANGED now
  /\ LET c == cconn[i]
         ev0 == <<E("OpenResult", st, now, c, "", 0, "accept")>> IN
       /\ writer' = c
       /\ IF AliveR # {}
          THEN /\ rcancel' = [x \in Conns |-> IF x \in AliveR THEN TRUE ELSE rcancel[x]]
               /\ cpc' = [cpc EXCEPT ![i] = "sleepCancel"] /\ cwake' = [cwake EXCEPT ![i] = now + 10]
               /\ Emit(ev0) /\ UNCHANGED <<st, cs, rpc, lock>>
          ELSE /\ StateBlock(i, c, ev0, cwake) /\ UNCHANGED rcancel
  /\ UNCHANGED <<ck, cconn, nconn, rconn, rwake, avail, q, ppc, pcancel, clpc, clwake, refusals, feeds, eofs, spawned>>

COpenFailed(i) ==
  /\ UNCHANGED sendvars
  /\ cpc[i] = "opening" /\ cs[cconn[i]] = "refused"
  /\ ck' = [ck EXCEPT ![i] = @ + 1] /\ cpc' = [cpc EXCEPT ![i] = "backoff"]
  /\ cwake' = [cwake EXCEPT ![i] = now + Delay(ck[i] + 1)]
  /\ Emit(<<E("OpenResult", st, now, cconn[i], "", 0, "refuse")>>)
  /\ UNCHANGED <<st, lock, cconn, cs, nconn, writer, rpc, rcancel, rconn, rwake, avail, q, ppc, pcancel, clpc, clwake,
                 now, refusals, feeds, eofs, spawned>>

\* the serial client only: the port opened, but the configuration write (or its drain()) raises.  The attempt fails like a
\* refused one - counted, backed off, retried (or given up once CLOSED is seen) - after shutting the port it had just
\* opened; the client keeps pointing at that port (self.writer) until the next successful attempt replaces it.
\* (Without the shutting TLC finds AllShut violated in MC_Client_serial: close() returns while the open is in flight,
\*  the port opens, the write fails, the attempt gives up - and the port stays open for good.  Repository fix d5d493c.)
CCfgFail(i) ==
  /\ UNCHANGED sendvars
  /\ CfgWrite /\ cpc[i] = "opening" /\ cs[cconn[i]] \in {"open", "eof"}
  /\ refusals < MaxRefuse /\ refusals' = refusals + 1
  /\ writer' = cconn[i] /\ cs' = [cs EXCEPT ![cconn[i]] = "shut"]
  /\ ck' = [ck EXCEPT ![i] = @ + 1] /\ cpc' = [cpc EXCEPT ![i] = "backoff"]
  /\ cwake' = [cwake EXCEPT ![i] = now + Delay(ck[i] + 1)]
  /\ Emit(<<E("OpenResult", st, now, cconn[i], "", 0, "accept"), E("WriteError", st, now, 0, "", cconn[i], ""),
            E("WriterClose", st, now, 0, "", cconn[i], "")>>)
  /\ UNCHANGED <<st, lock, cconn, nconn, rpc, rcancel, rconn, rwake, avail, q, ppc, pcancel, clpc, clwake,
                 now, feeds, eofs, spawned>>

----------------------------------------------------------------------------
(* _receive_loop; a receive task is named after the connection it was created for *)

\* loop head: the CLOSED test, then the next read on whatever connection is current
LoopHead(r, evs) ==
  IF st' = "X" THEN /\ rpc' = [rpc EXCEPT ![r] = "done"] /\ Emit(evs) /\ UNCHANGED rconn
  ELSE /\ rpc' = [rpc EXCEPT ![r] = "reading"] /\ rconn' = [rconn EXCEPT ![r] = writer]
       /\ Emit(evs \o <<E("ReadStart", st', now, 0, "", writer, "")>>)

RStart(r) ==
  /\ UNCHANGED sendvars
  /\ rpc[r] = "start" /\ ~rcancel[r]
  /\ UNCHANGED st /\ LoopHead(r, <<>>)
  /\ UNCHANGED <<lock, cpc, ck, cconn, cwake, cs, nconn, writer, rcancel, rwake, avail, q, ppc, pcancel, clpc, clwake,
                 now, refusals, feeds, eofs, spawned>>

RPacket(r) ==
  /\ UNCHANGED sendvars
  /\ rpc[r] = "reading" /\ ~rcancel[r] /\ avail[rconn[r]] > 0
  /\ avail' = [avail EXCEPT ![rconn[r]] = @ - 1] /\ q' = q + 1
  /\ UNCHANGED st /\ LoopHead(r, <<E("ReadEnd", st, now, 0, "", rconn[r], "")>>)
  /\ UNCHANGED <<lock, cpc, ck, cconn, cwake, cs, nconn, writer, rcancel, rwake, ppc, pcancel, clpc, clwake,
                 now, refusals, feeds, eofs, spawned>>

\* the connect() a failing receive loop (or a failing send) leaves behind
SpawnConnect == /\ spawned < NC /\ spawned' = spawned + 1 /\ cpc' = [cpc EXCEPT ![spawned + 1] = "spawned"]

RFault(r) ==
  /\ UNCHANGED sendvars
  /\ rpc[r] = "reading" /\ ~rcancel[r] /\ avail[rconn[r]] = 0 /\ cs[rconn[r]] \in {"eof", "shut"}
  /\ LET ev0 == <<E("ReadEnd", st, now, 0, "", rconn[r], "")>> IN
       IF st = "X"
       THEN /\ rpc' = [rpc EXCEPT ![r] = "done"] /\ Emit(ev0) /\ UNCHANGED <<st, rwake, cpc, spawned>>
       ELSE /\ st' = "D"
            /\ LET evs == ev0 \o (IF st # "D" THEN <<E("Status", "D", now, 0, "DISCONNECTED", 0, "")>> ELSE <<>>) IN
                 IF "D" \in SlowSet /\ st # "D"
                 THEN /\ rpc' = [rpc EXCEPT ![r] = "cbDisc"] /\ rwake' = [rwake EXCEPT ![r] = now + CbPause]
                      /\ Emit(evs) /\ UNCHANGED <<cpc, spawned>>
                 ELSE /\ rpc' = [rpc EXCEPT ![r] = "done"] /\ SpawnConnect /\ Emit(evs) /\ UNCHANGED rwake
  /\ UNCHANGED <<lock, ck, cconn, cwake, cs, nconn, writer, rcancel, rconn, avail, q, ppc, pcancel, clpc, clwake,
                 now, refusals, feeds, eofs>>

RCancelled(r) ==
  /\ UNCHANGED sendvars
  /\ rcancel[r] /\ rpc[r] \in {"start", "reading", "cbDisc"}
  /\ rpc' = [rpc EXCEPT ![r] = "done"] /\ rwake' = [rwake EXCEPT ![r] = -1]
  /\ Emit(IF rpc[r] = "reading" THEN <<E("ReadCancelled", st, now, 0, "", rconn[r], "")>> ELSE <<>>)
  /\ UNCHANGED <<st, lock, cpc, ck, cconn, cwake, cs, nconn, writer, rcancel, rconn, avail, q, ppc, pcancel, clpc,
                 clwake, now, refusals, feeds, eofs, spawned>>

----------------------------------------------------------------------------
(* _process_queue *)
PGet ==
  /\ UNCHANGED sendvars
  /\ ppc = "get" /\ ~pcancel /\ q > 0 /\ st # "X"
  /\ q' = q - 1 /\ Emit(<<E("Deliver", st, now, 0, "", 0, "")>>)
  /\ UNCHANGED <<st, lock, cpc, ck, cconn, cwake, cs, nconn, writer, rpc, rcancel, rconn, rwake, avail, ppc, pcancel,
                 clpc, clwake, now, refusals, feeds, eofs, spawned>>
\* a message taken from the queue just as close() runs is still handed over before the CLOSED test is reached
PGetLast ==
  /\ UNCHANGED sendvars
  /\ ppc = "get" /\ ~pcancel /\ q > 0 /\ st = "X" /\ \A j \in Closers : clpc[j] # "done"
  /\ q' = q - 1 /\ ppc' = "dead" /\ Emit(<<E("Deliver", st, now, 0, "", 0, "")>>)
  /\ UNCHANGED <<st, lock, cpc, ck, cconn, cwake, cs, nconn, writer, rpc, rcancel, rconn, rwake, avail, pcancel,
                 clpc, clwake, now, refusals, feeds, eofs, spawned>>
PCancelled ==
  /\ UNCHANGED sendvars
  /\ pcancel /\ ppc # "dead" /\ ppc' = "dead"
  /\ UNCHANGED <<st, lock, cpc, ck, cconn, cwake, cs, nconn, writer, rpc, rcancel, rconn, rwake, avail, q, pcancel,
                 clpc, clwake, now, refusals, feeds, eofs, spawned>> /\ Emit(<<>>)

----------------------------------------------------------------------------
(* close() *)
ClosePq(j, evs) ==
  IF ppc # "dead"
  THEN /\ pcancel' = TRUE /\ clpc' = [clpc EXCEPT ![j] = "sleep2"] /\ clwake' = [clwake EXCEPT ![j] = now + 10] /\ Emit(evs)
  ELSE /\ clpc' = [clpc EXCEPT ![j] = "done"] /\ clwake' = [clwake EXCEPT ![j] = -1]
       /\ Emit(evs \o <<E("RetClose", st', now, 0, "", 0, "")>>) /\ UNCHANGED pcancel
CloseBody(j, evs0) ==
  LET shutNow == writer # 0 /\ cs[writer] # "shut"
      evs == evs0 \o (IF shutNow THEN <<E("WriterClose", st', now, 0, "", writer, "")>> ELSE <<>>)
  IN /\ cs' = IF shutNow THEN [cs EXCEPT ![writer] = "shut"] ELSE cs
     /\ IF AliveR # {}
        THEN /\ rcancel' = [x \in Conns |-> IF x \in AliveR THEN TRUE ELSE rcancel[x]]
             /\ clpc' = [clpc EXCEPT ![j] = "sleep1"] /\ clwake' = [clwake EXCEPT ![j] = now + 10] /\ Emit(evs) /\ UNCHANGED pcancel
        ELSE /\ ClosePq(j, evs) /\ UNCHANGED rcancel

\* the user calls close(); a second call (j > 1) comes while the first is at work or after it returned or was abandoned.  The
\* state is CLOSED from the first call on: a later call notifies nothing and goes through the same body - shut the link if
\* it is not shut, cancel what is still alive, wait for the cancellations - before it returns.
CallClose(j) ==
  /\ UNCHANGED sendvars
  /\ clpc[j] = "none" /\ (IF j = 1 THEN TRUE ELSE clpc[j - 1] # "none")
  /\ st' = "X"
  /\ LET evs == <<E("CallClose", st, now, 0, "", 0, "")>>
                  \o (IF st # "X" THEN <<E("Status", "X", now, 0, "CLOSED", 0, "")>> ELSE <<>>) IN
       IF "X" \in SlowSet /\ st # "X"
       THEN /\ clpc' = [clpc EXCEPT ![j] = "cb"] /\ clwake' = [clwake EXCEPT ![j] = now + CbPause] /\ Emit(evs)
            /\ UNCHANGED <<cs, rcancel, pcancel>>
       ELSE CloseBody(j, evs)
  /\ UNCHANGED <<lock, cpc, ck, cconn, cwake, nconn, writer, rpc, rconn, rwake, avail, q, ppc, now, refusals, feeds,
                 eofs, spawned>>
\* the caller gives the first close() up while it waits in its suspending notification (asyncio.wait_for): the call is
\* cancelled there and never returns; nothing has been shut or cancelled yet.  (Explored only when a second call may follow.)
AbandonClose ==
  /\ UNCHANGED sendvars
  /\ NCl > 1 /\ clpc[1] = "cb"
  /\ clpc' = [clpc EXCEPT ![1] = "abandoned"] /\ clwake' = [clwake EXCEPT ![1] = -1] /\ Emit(<<>>)
  /\ UNCHANGED <<st, lock, cpc, ck, cconn, cwake, cs, nconn, writer, rpc, rcancel, rconn, rwake, avail, q, ppc, pcancel,
                 now, refusals, feeds, eofs, spawned>>

----------------------------------------------------------------------------
(* timers: the earliest first; one that is not yet due fires only when nothing is ready to run (time then
   advances); one already due may fire although a task is ready: the event loop resumes every timer due at the
   same instant in one iteration, before tasks created during that iteration get their first step *)
Ready ==
  \/ \E i \in Insts : cpc[i] = "spawned" \/ (cpc[i] = "opening" /\ cs[cconn[i]] \in {"open", "eof", "refused"})
  \/ \E r \in Conns : \/ rpc[r] = "start"
                      \/ (rcancel[r] /\ rpc[r] \in {"reading", "cbDisc"})
                      \/ (rpc[r] = "reading" /\ (avail[rconn[r]] > 0 \/ cs[rconn[r]] \in {"eof", "shut"}))
  \/ (ppc = "get" /\ (q > 0 \/ pcancel))
Sleepers == {cwake[i] : i \in {j \in Insts : cwake[j] >= 0}} \cup {rwake[r] : r \in {x \in Conns : rwake[x] >= 0}}
            \cup {clwake[j] : j \in {x \in Closers : clwake[x] >= 0}} \cup (IF swake >= 0 THEN {swake} ELSE {})
Earliest(w) == w >= 0 /\ \A x \in Sleepers : w <= x
Tick(w) == now' = IF w > now THEN w ELSE now
Due(w) == Earliest(w) /\ (~Ready \/ w <= now)

CWake(i) ==
  /\ UNCHANGED sendvars
  /\ Due(cwake[i]) /\ Tick(cwake[i])
  /\ CASE cpc[i] = "backoff" ->
            /\ LET evs0 == <<>> IN
                 IF st = "X"
                 THEN /\ cpc' = Done(i) /\ lock' = FALSE /\ Emit([k \in 1..Len(RetEv(i, st)) |-> [RetEv(i, st)[k] EXCEPT !.t = now']])
                      /\ UNCHANGED <<cs, nconn, cconn>>
                 ELSE /\ nconn < MaxConn
                      /\ nconn' = nconn + 1 /\ cs' = [cs EXCEPT ![nconn + 1] = "pending"]
                      /\ cconn' = [cconn EXCEPT ![i] = nconn + 1] /\ cpc' = [cpc EXCEPT ![i] = "opening"]
                      /\ UNCHANGED lock
                      /\ Emit(<<E("Open", st, now', nconn + 1, "", 0, "")>>)
            /\ cwake' = [cwake EXCEPT ![i] = -1]
            /\ UNCHANGED <<st, rpc, rcancel>>
       [] cpc[i] = "cbConn" ->
            /\ SpawnBlock(i, cconn[i], <<>>, st) /\ cwake' = [cwake EXCEPT ![i] = -1]
            /\ UNCHANGED <<st, cs, nconn, cconn, rcancel>>
       [] cpc[i] = "sleepCancel" ->
            /\ StateBlock(i, cconn[i], <<>>, [cwake EXCEPT ![i] = -1]) /\ UNCHANGED <<nconn, cconn, rcancel>>
  /\ UNCHANGED <<ck, writer, rconn, rwake, avail, q, ppc, pcancel, clpc, clwake, refusals, feeds, eofs, spawned>>

RWake(r) ==
  /\ UNCHANGED sendvars
  /\ Due(rwake[r]) /\ Tick(rwake[r]) /\ rpc[r] = "cbDisc"
  /\ rwake' = [rwake EXCEPT ![r] = -1] /\ rpc' = [rpc EXCEPT ![r] = "done"] /\ SpawnConnect
  /\ UNCHANGED <<st, lock, ck, cconn, cwake, cs, nconn, writer, rcancel, rconn, avail, q, ppc, pcancel, clpc, clwake, refusals, feeds, eofs>> /\ Emit(<<>>)

ClWake(j) ==
  /\ UNCHANGED sendvars
  /\ Due(clwake[j]) /\ Tick(clwake[j])
  /\ UNCHANGED st
  /\ LET Go(pc, w) == /\ clpc' = [clpc EXCEPT ![j] = pc] /\ clwake' = [clwake EXCEPT ![j] = w] IN
     CASE clpc[j] = "cb" ->
            LET shutNow == writer # 0 /\ cs[writer] # "shut"
                evs == IF shutNow THEN <<E("WriterClose", st, now', 0, "", writer, "")>> ELSE <<>>
            IN /\ cs' = IF shutNow THEN [cs EXCEPT ![writer] = "shut"] ELSE cs
               /\ IF AliveR # {}
                  THEN /\ rcancel' = [x \in Conns |-> IF x \in AliveR THEN TRUE ELSE rcancel[x]]
                       /\ Go("sleep1", now' + 10) /\ Emit(evs) /\ UNCHANGED pcancel
                  ELSE /\ UNCHANGED rcancel
                       /\ IF ppc # "dead"
                          THEN /\ pcancel' = TRUE /\ Go("sleep2", now' + 10) /\ Emit(evs)
                          ELSE /\ Go("done", -1) /\ UNCHANGED pcancel
                               /\ Emit(evs \o <<E("RetClose", st, now', 0, "", 0, "")>>)
       [] clpc[j] = "sleep1" ->
            /\ UNCHANGED <<cs, rcancel>>
            /\ IF ppc # "dead"
               THEN /\ pcancel' = TRUE /\ Go("sleep2", now' + 10) /\ Emit(<<>>)
               ELSE /\ Go("done", -1) /\ UNCHANGED pcancel
                    /\ Emit(<<E("RetClose", st, now', 0, "", 0, "")>>)
       [] clpc[j] = "sleep2" ->
            /\ Go("done", -1) /\ Emit(<<E("RetClose", st, now', 0, "", 0, "")>>)
            /\ UNCHANGED <<cs, rcancel, pcancel>>
  /\ UNCHANGED <<lock, cpc, ck, cconn, cwake, nconn, writer, rpc, rconn, rwake, avail, q, ppc, refusals, feeds, eofs,
                 spawned>>

----------------------------------------------------------------------------
(* environment *)
GwAccept(c) ==
  /\ UNCHANGED sendvars
  /\ cs[c] = "pending" /\ cs' = [cs EXCEPT ![c] = "open"]
  /\ UNCHANGED <<st, lock, cpc, ck, cconn, cwake, nconn, writer, rpc, rcancel, rconn, rwake, avail, q, ppc, pcancel,
                 clpc, clwake, now, refusals, feeds, eofs, spawned>> /\ Emit(<<>>)
GwRefuse(c) ==
  /\ UNCHANGED sendvars
  /\ cs[c] = "pending" /\ refusals < MaxRefuse /\ refusals' = refusals + 1
  /\ cs' = [cs EXCEPT ![c] = "refused"]
  /\ UNCHANGED <<st, lock, cpc, ck, cconn, cwake, nconn, writer, rpc, rcancel, rconn, rwake, avail, q, ppc, pcancel,
                 clpc, clwake, now, feeds, eofs, spawned>> /\ Emit(<<>>)
Feed(c) ==
  /\ UNCHANGED sendvars
  /\ cs[c] = "open" /\ feeds < MaxFeed /\ feeds' = feeds + 1 /\ avail' = [avail EXCEPT ![c] = @ + 1]
  /\ UNCHANGED <<st, lock, cpc, ck, cconn, cwake, cs, nconn, writer, rpc, rcancel, rconn, rwake, q, ppc, pcancel,
                 clpc, clwake, now, refusals, eofs, spawned>> /\ Emit(<<E("Feed", st, now, 0, "", c, "")>>)
Eof(c) ==
  /\ UNCHANGED sendvars
  /\ cs[c] = "open" /\ eofs < MaxEof /\ eofs' = eofs + 1 /\ cs' = [cs EXCEPT ![c] = "eof"]
  /\ Emit(<<E("Fault", st, now, 0, "", c, "")>>)
  /\ UNCHANGED <<st, lock, cpc, ck, cconn, cwake, nconn, writer, rpc, rcancel, rconn, rwake, avail, q, ppc, pcancel,
                 clpc, clwake, now, refusals, feeds, spawned>>
\* send(): the user may call it at any time once a link exists (also while close() runs, also after it).  The write
\* goes to the current link; drain() may suspend (back-pressure).  One send at a time (MC_Send has the lock).
SendStart ==
  /\ spc = "idle" /\ writer # 0 /\ nsent < MaxSend     \* (calls queue on the send lock: one is on the link at a time)
  /\ spc' = "drain" /\ sconn' = writer /\ nsent' = nsent + 1
  /\ UNCHANGED <<st, lock, cpc, ck, cconn, cwake, cs, nconn, writer, rpc, rcancel, rconn, rwake, avail, q, ppc, pcancel,
                 clpc, clwake, now, refusals, feeds, eofs, spawned, swake>> /\ Emit(<<>>)
\* drain() returns: the link took the data
SendOk ==
  /\ spc = "drain" /\ cs[sconn] = "open" /\ spc' = "idle"
  /\ UNCHANGED <<st, lock, cpc, ck, cconn, cwake, cs, nconn, writer, rpc, rcancel, rconn, rwake, avail, q, ppc, pcancel,
                 clpc, clwake, now, refusals, feeds, eofs, spawned, sconn, swake, nsent>> /\ Emit(<<>>)
\* the write or drain() raises (the link died, or close() shut it meanwhile).  The fault handler of send() looks at the
\* state when the failure surfaces: CLOSED, or the link written to is no longer the current one -> nothing; otherwise
\* DISCONNECTED is reported (if it is a change) and a connect() is spawned.  (Without the stale-link test TLC finds
\* a behaviour that ends DISCONNECTED for good on a healthy link: MC_Client_slow, NeverStuck.)
SendFail ==
  /\ spc = "drain"
  /\ cs' = [cs EXCEPT ![sconn] = IF @ = "open" THEN "eof" ELSE @]      \* a failing write means the link is dead
  /\ IF st = "X" \/ sconn # writer        \* closed, or the link has been replaced meanwhile: the failure is only logged
     THEN /\ spc' = "idle" /\ Emit(<<E("WriteError", st, now, 0, "", sconn, "")>>) /\ UNCHANGED <<st, cpc, spawned, swake>>
     ELSE /\ st' = "D"
          /\ Emit(<<E("WriteError", st, now, 0, "", sconn, "")>>
                  \o (IF st # "D" THEN <<E("Status", "D", now, 0, "DISCONNECTED", 0, "")>> ELSE <<>>))
          /\ IF "D" \in SlowSet /\ st # "D"
             THEN /\ spc' = "cb" /\ swake' = now + CbPause /\ UNCHANGED <<cpc, spawned>>
             ELSE /\ spc' = "idle" /\ SpawnConnect /\ UNCHANGED swake
  /\ UNCHANGED <<lock, ck, cconn, cwake, nconn, writer, rpc, rcancel, rconn, rwake, avail, q, ppc, pcancel,
                 clpc, clwake, now, refusals, feeds, eofs, sconn, nsent>>
\* the suspending callback returns: the handler spawns the connect() (whatever the state is by now)
SWake ==
  /\ spc = "cb" /\ Due(swake) /\ Tick(swake)
  /\ spc' = "idle" /\ swake' = -1 /\ SpawnConnect /\ Emit(<<>>)
  /\ UNCHANGED <<st, lock, ck, cconn, cwake, cs, nconn, writer, rpc, rcancel, rconn, rwake, avail, q, ppc, pcancel,
                 clpc, clwake, refusals, feeds, eofs, sconn, nsent>>

Client == \/ \E i \in Insts : UserConnect(i) \/ SpawnedStart(i) \/ COpened(i) \/ COpenFailed(i) \/ CCfgFail(i) \/ CWake(i)
          \/ \E r \in Conns : RStart(r) \/ RPacket(r) \/ RFault(r) \/ RCancelled(r) \/ RWake(r)
          \/ PGet \/ PGetLast \/ PCancelled \/ AbandonClose \/ \E j \in Closers : CallClose(j) \/ ClWake(j)
Env == \E c \in Conns : GwAccept(c) \/ GwRefuse(c) \/ Feed(c) \/ Eof(c)
Next == Client \/ Env \/ SendStart \/ SendOk \/ SendFail \/ SWake
Spec == Init /\ [][Next]_vars

----------------------------------------------------------------------------
(* properties *)
MonitorQuiet == mon.viol = ""
ClosedFinal == [][st = "X" => st' = "X"]_vars
OneReceivePath == Cardinality({r \in Conns : rpc[r] = "reading" /\ ~rcancel[r]}) <= 1
LockDiscipline == lock => \E i \in Insts : cpc[i] \in {"opening", "backoff", "cbConn", "sleepCancel"}

\* nothing of the client can run any more and the gateway owes no answer
Quiescent == /\ ~Ready /\ Sleepers = {} /\ \A c \in Conns : cs[c] # "pending"
\* never stuck: if the client was not closed and the gateway can still be tried, a quiescent client is
\* connected and has a read outstanding on the current link (or the link is healthy and idle)
NeverStuck ==
  (Quiescent /\ (\A j \in Closers : clpc[j] = "none") /\ nconn < MaxConn /\ \E i \in 1..NU : cpc[i] # "idle")
     => (st = "C" /\ \E r \in Conns : rpc[r] = "reading" /\ rconn[r] = writer /\ cs[writer] = "open")
\* after close() returned and everything settled: all tasks are gone, late links are shut
AllShut ==
  (Quiescent /\ \E j \in Closers : clpc[j] = "done") =>
     /\ \A i \in Insts : cpc[i] \in {"idle", "done"}
     /\ \A r \in Conns : rpc[r] \in {"none", "done"}
     /\ ppc = "dead" /\ ~lock
     /\ (writer # 0 => cs[writer] = "shut")
=============================================================================
