SPECIFICATION Spec
CONSTANTS
  Format = "usb"
  ChunkSizes = {0, 1, 5, 13, 20, 27}
  Cfg <- NoFilter
INVARIANT Transparent
INVARIANT Complete
INVARIANT SomethingExpected
PROPERTY InOrderOnce
CHECK_DEADLOCK FALSE
