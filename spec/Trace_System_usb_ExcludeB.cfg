SPECIFICATION TSpec
CONSTANTS
  Format = "usb"
  ChunkSizes = {0}
  Cfg <- ExcludeB
CHECK_DEADLOCK FALSE
