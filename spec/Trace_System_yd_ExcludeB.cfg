SPECIFICATION TSpec
CONSTANTS
  Format = "yd"
  ChunkSizes = {0}
  Cfg <- ExcludeB
CHECK_DEADLOCK FALSE
