------------------------------ MODULE N2KDecoder ------------------------------
(***************************************************************************)
(* One NMEA2000Decoder instance as a state machine (decoder.py:_decode,    *)
(* _decode_fast_message, _call_decode_function): PGN filters (numeric      *)
(* before reassembly, by id after decoding), the source -> identity map    *)
(* fed by ISO address claims, manufacturer filters, the discovery window   *)
(* of the network map, fast-packet buffers (N2KFastPacket!Recv).           *)
(*                                                                         *)
(* Abstract traffic: PGN kinds "A", "B" (single frame), "P1", "P2" (two     *)
(* definitions of one proprietary single-frame PGN "P"), "Q1" (a definition *)
(* of a proprietary PGN "Q" that has no fallback definition), "F" (fast     *)
(* packet), "CLAIM", and PGNs not in the database; content is a token.      *)
(*   input = [k |-> "single", pgn, src, tok]                               *)
(*         | [k |-> "frame", src, seq, fc, len, chunk]    (PGN "F")        *)
(*         | [k |-> "whole", src, tok]   (PGN "F" delivered pre-assembled  *)
(*            by a format that carries whole messages: no reassembly)      *)
(*         | [k |-> "claim", src, name]                                    *)
(*         | [k |-> "unknown", src] | [k |-> "bad"]  (raises, no effect)   *)
(*         | [k |-> "nomatch", src]  (a frame of PGN "Q" whose payload     *)
(*            matches none of its definitions: ignored, no effect)         *)
(* configuration = [mode ("none"|"exclude"|"include"), nums, ids (sets of  *)
(*   PGN kinds listed by number / by id; ids compare case-insensitively),  *)
(*   mfrMode, mfrs (manufacturer list), netmap]                            *)
(***************************************************************************)
EXTENDS Integers, Sequences, FiniteSets, N2KFastPacket

NoMsg == [some |-> FALSE, pgn |-> "", src |-> 0, tok |-> <<>>, ident |-> 0]
Msg(p, s, t, i) == [some |-> TRUE, pgn |-> p, src |-> s, tok |-> t, ident |-> i]

\* several definitions (ids) may share one PGN number: kinds "P1" and "P2" are two definitions of PGN "P"
NumOf(p) == IF p \in {"P1", "P2"} THEN "P" ELSE IF p = "Q1" THEN "Q" ELSE p
Listed(cfg, p) == NumOf(p) \in cfg.nums \/ p \in cfg.ids
\* the property's notion: not excluded, and listed when an include list is given
Permitted(cfg, p) ==
  CASE cfg.mode = "none"    -> TRUE
    [] cfg.mode = "exclude" -> ~Listed(cfg, p)
    [] cfg.mode = "include" -> (cfg.nums \cup cfg.ids = {}) \/ Listed(cfg, p)
ClaimFiltered(cfg) == ~Permitted(cfg, "CLAIM")

\* manufacturer of a NAME: names 1, 2 belong to manufacturers "m1", "m2"; name 3 has a code the
\* database does not know (no manufacturer text)
MfrOf(name) == CASE name = 1 -> "m1" [] name = 2 -> "m2" [] OTHER -> "none"
MfrPermitted(cfg, name) ==
  IF name = 0 \/ MfrOf(name) = "none" THEN TRUE
  ELSE CASE cfg.mfrMode = "none"    -> TRUE
         [] cfg.mfrMode = "exclude" -> MfrOf(name) \notin cfg.mfrs
         [] cfg.mfrMode = "include" -> cfg.mfrs = {} \/ MfrOf(name) \in cfg.mfrs
         \* both lists at once (mfrs: excluded, mfrsIn: included): being excluded wins over being included
         [] cfg.mfrMode = "both"    -> MfrOf(name) \notin cfg.mfrs /\ (cfg.mfrsIn = {} \/ MfrOf(name) \in cfg.mfrsIn)

InitState == [ident |-> [s \in {} |-> 0], bufs |-> [s \in {} |-> None]]
IdentOf(st, s) == IF s \in DOMAIN st.ident THEN st.ident[s] ELSE 0
BufOf(st, s) == IF s \in DOMAIN st.bufs THEN st.bufs[s] ELSE None

\* the checks in front of decoding / reassembly (not applied to claims)
EarlyDrop(cfg, st, p, s, windowOpen) ==
  \/ (cfg.mode = "exclude" /\ NumOf(p) \in cfg.nums)
  \/ (cfg.mode = "include" /\ cfg.nums # {} /\ cfg.ids = {} /\ NumOf(p) \notin cfg.nums)
  \/ (cfg.netmap /\ windowOpen /\ IdentOf(st, s) = 0)
  \/ ~MfrPermitted(cfg, IdentOf(st, s))
\* after decoding, by id (and by number for mixed include lists)
LateDrop(cfg, p) == ~Permitted(cfg, p)

\* Step(cfg, st, in, windowOpen) = [st |-> state afterwards, out |-> message or NoMsg, err |-> BOOLEAN]
Step(cfg, st, in, windowOpen) ==
  CASE in.k = "bad" -> [st |-> st, out |-> NoMsg, err |-> TRUE]
    [] in.k = "unknown" -> [st |-> st, out |-> NoMsg, err |-> FALSE]
    [] in.k = "nomatch" -> [st |-> st, out |-> NoMsg, err |-> FALSE]
    [] in.k = "claim" ->
         LET st2 == [st EXCEPT !.ident = (in.src :> in.name) @@ st.ident] IN
           [st |-> st2, err |-> FALSE,
            out |-> IF ClaimFiltered(cfg) THEN NoMsg ELSE Msg("CLAIM", in.src, <<in.name>>, in.name)]
    [] in.k = "single" ->
         IF EarlyDrop(cfg, st, in.pgn, in.src, windowOpen) \/ LateDrop(cfg, in.pgn)
         THEN [st |-> st, out |-> NoMsg, err |-> FALSE]
         ELSE [st |-> st, out |-> Msg(in.pgn, in.src, in.tok, IdentOf(st, in.src)), err |-> FALSE]
    [] in.k = "whole" ->
         IF EarlyDrop(cfg, st, "F", in.src, windowOpen) \/ LateDrop(cfg, "F")
         THEN [st |-> st, out |-> NoMsg, err |-> FALSE]
         ELSE [st |-> st, out |-> Msg("F", in.src, in.tok, IdentOf(st, in.src)), err |-> FALSE]
    [] in.k = "frame" ->
         IF EarlyDrop(cfg, st, "F", in.src, windowOpen) THEN [st |-> st, out |-> NoMsg, err |-> FALSE]
         ELSE LET r == Recv(BufOf(st, in.src), [seq |-> in.seq, fc |-> in.fc, len |-> in.len, chunk |-> in.chunk])
                  st2 == [st EXCEPT !.bufs = (in.src :> r.buf) @@ st.bufs]
              IN IF r.out.some /\ ~LateDrop(cfg, "F")
                 THEN [st |-> st2, out |-> Msg("F", in.src, r.out.payload, IdentOf(st, in.src)), err |-> FALSE]
                 ELSE [st |-> st2, out |-> NoMsg, err |-> FALSE]
=============================================================================
