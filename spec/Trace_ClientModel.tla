--------------------------- MODULE Trace_ClientModel ---------------------------
(***************************************************************************)
(* Conformance of the real clients with the implementation-shaped model:   *)
(* is each recorded event log a behaviour of spec/N2KClient.tla?           *)
(* Every log is an initial state; a step is a step of the model whose      *)
(* emitted events (mon.last) are exactly the next events of the log; steps *)
(* that emit nothing (the gateway answering, timers, cancellations) and    *)
(* the passing of time up to the next logged event are silent.  Unlogged   *)
(* variables (lock, program counters, queue) are inferred by TLC.          *)
(* Register tn holds the furthest position reached in log tn; a log is     *)
(* accepted iff some path consumes all of it.  Deviations are DRIFT (the   *)
(* properties themselves are judged by the monitor, Trace_Client).         *)
(***************************************************************************)
EXTENDS N2KClient, Json, IOUtils

Logs == JsonDeserialize(IOEnv.IN_FILE)
ASSUME \A i \in 1..Len(Logs) : TLCSet(i, 1)

VARIABLES tn, l, quiet
tvars == <<vars, tn, l, quiet>>

TInit == Init /\ tn \in 1..Len(Logs) /\ l = 1 /\ quiet = 0
Log == Logs[tn]
Same(a, b) == a.e = b.e /\ a.st = b.st /\ a.t = b.t /\ a.k = b.k /\ a.s = b.s /\ a.conn = b.conn /\ a.r = b.r
Matches(evs) == /\ l + Len(evs) - 1 <= Len(Log)
                /\ \A j \in 1..Len(evs) : Same(evs[j], Log[l + j - 1])

ModelStep == /\ Next /\ Matches(mon'.last)
             /\ l' = l + Len(mon'.last) /\ tn' = tn
             /\ quiet' = IF mon'.last = <<>> THEN quiet + 1 ELSE 0
             /\ quiet' <= 8
\* virtual time passes until the next logged event when nothing is ready and no timer fires earlier
TimePasses == /\ l <= Len(Log) /\ Log[l].t > now /\ ~Ready
              /\ \A w \in Sleepers : w >= Log[l].t
              /\ now' = Log[l].t /\ mon' = [mon EXCEPT !.last = <<>>]
              /\ UNCHANGED <<st, lock, cpc, ck, cconn, cwake, cs, nconn, writer, rpc, rcancel, rconn, rwake, avail, q, ppc,
                             pcancel, clpc, clwake, refusals, feeds, eofs, spawned, spc, sconn, swake, nsent, tn, l, quiet>>
TNext == ModelStep \/ TimePasses
TSpec == TInit /\ [][TNext]_tvars

\* evaluated in every reachable state: remember how far each log got
Progress == IF l > TLCGet(tn) THEN TLCSet(tn, l) ELSE TRUE
Post == JsonSerialize(IOEnv.OUT_FILE, [i \in 1..Len(Logs) |-> [reached |-> TLCGet(i), len |-> Len(Logs[i])]])
=============================================================================
