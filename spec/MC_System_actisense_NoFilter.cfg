SPECIFICATION Spec
CONSTANTS
  Format = "actisense"
  ChunkSizes = {0, 1, 9, 33, 47}
  Cfg <- NoFilter
INVARIANT Transparent
INVARIANT Complete
INVARIANT SomethingExpected
PROPERTY InOrderOnce
CHECK_DEADLOCK FALSE
