---------------------------- MODULE MC_RecordLaws ----------------------------
(***************************************************************************)
(* B1 for C17 / C18 (thin by nature: both are properties of pure           *)
(* functions whose substance lies in the binding to the 418 generated      *)
(* decoders).  What TLC checks here is that the oracles used by the record *)
(* validation are coherent:                                                *)
(*   KeyLaw   on toy layouts (IOEnv.DB_FILE = spec/toy_db.json), for every *)
(*            pair of 2-byte payloads: KeyBits agree iff the payloads      *)
(*            agree on every bit of every primary-key field                *)
(*   ConvLaw  the conversion table is a partial function of (quantity,     *)
(*            requested unit); unit texts are lower case; an unrecognised  *)
(*            request selects nothing                                      *)
(*   FrameLaw C18Field accepts a field left untouched when nothing is      *)
(*            requested and rejects a change of any attribute              *)
(***************************************************************************)
EXTENDS Trace_Codec

VARIABLES di, p1, p2
vars2 == <<di, p1, p2>>
Bytes2 == {<<a, b>> : a \in {0, 1, 15, 16, 128, 255}, b \in {0, 1, 3, 4, 255}}
Init2 == done = FALSE /\ di \in 1..NDefs /\ p1 \in Bytes2 /\ p2 \in Bytes2
Next2 == UNCHANGED <<vars2, done>>
Spec2 == Init2 /\ [][Next2]_<<vars2, done>>

D == Defs[di]
PkBits(d) == UNION {{d.fields[k].off + j : j \in 0..(d.fields[k].len - 1)} : k \in {x \in 1..Len(d.fields) : d.fields[x].pk}}
KeyLaw == (KeyBits(D, p1) = KeyBits(D, p2)) <=> (\A i \in PkBits(D) : BitAt(p1, i) = BitAt(p2, i))

ConvLaw ==
  /\ \A a, b \in 1..Len(Conversions) :
        (Conversions[a].qty = Conversions[b].qty /\ Conversions[a].want = Conversions[b].want) => a = b
  /\ ConvFor("TEMPERATURE", "kelvin") = <<>> /\ ConvFor("LENGTH", "c") = <<>>
  /\ Len(ConvFor("SPEED", "kts")) = 1

Val(x) == [k |-> "num", neg |-> FALSE, mag |-> <<1>>, exact |-> TRUE, s |-> "", cp |-> <<>>, n |-> x]
Fld(q, u, x) == [id |-> "f", name |-> "F", unit |-> u, qty |-> q, type |-> "NUMBER", pk |-> FALSE, r |-> Val(x), v |-> Val(x), num |-> TRUE]
FrameLaw ==
  /\ C18Field([TEMPERATURE |-> "c"], Fld("SPEED", "m/s", 1), Fld("SPEED", "m/s", 1)) = "ok"
  /\ C18Field([TEMPERATURE |-> "c"], Fld("SPEED", "m/s", 1), Fld("SPEED", "kts", 1)) = "unit-changed-without-conversion"
  /\ C18Field([TEMPERATURE |-> "c"], Fld("SPEED", "m/s", 1), Fld("SPEED", "m/s", 2)) = "raw-value-changed"
  /\ C18Field([TEMPERATURE |-> "c"], Fld("TEMPERATURE", "K", 1), Fld("TEMPERATURE", "C", 1)) = "ok"
  /\ C18Field([TEMPERATURE |-> "c"], Fld("TEMPERATURE", "K", 1), Fld("TEMPERATURE", "K", 1)) = "unit-label"
  /\ C18Field([TEMPERATURE |-> "kelvin"], Fld("TEMPERATURE", "K", 1), Fld("TEMPERATURE", "K", 1)) = "ok"
=============================================================================
