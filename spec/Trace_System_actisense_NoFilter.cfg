SPECIFICATION TSpec
CONSTANTS
  Format = "actisense"
  ChunkSizes = {0}
  Cfg <- NoFilter
CHECK_DEADLOCK FALSE
