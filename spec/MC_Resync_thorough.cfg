SPECIFICATION Spec
CONSTANT K = 4
INVARIANT NoBadChecksum
INVARIANT InOrderOnce
INVARIANT NoLossMarkerFree
INVARIANT AtMostOne
INVARIANT Bounded
CHECK_DEADLOCK FALSE
