SPECIFICATION Spec
CONSTANTS
  Streams = {1, 2}
  Lens = {0, 1, 6, 7, 13, 14, 21}
  MaxK = 18
INVARIANT Shape
INVARIANT InverseLaw
INVARIANT Counter
INVARIANT Forgets
CHECK_DEADLOCK FALSE
