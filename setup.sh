#!/bin/sh
# Build/verify the framework from files on disk only (offline).
set -e
cd "$(dirname "$0")"
mkdir -p .work evidence
/venv/bin/python -m compileall -q harness
for f in spec/N2K*.tla spec/MC_*.tla spec/Trace_*.tla; do
  [ -f "$f" ] || continue
  ( cd spec && java -cp /opt/veriftools/tla/tla2tools.jar:/opt/veriftools/tla/CommunityModules-deps.jar tla2sany.SANY "$(basename "$f")" >/dev/null ) || { echo "SANY rejects $f"; exit 1; }
done
echo "setup ok"
